// crosscheck.cc - compares intel-ipsec-mb (public job API only: IMB_GET_NEXT_JOB /
// IMB_SUBMIT_JOB / IMB_FLUSH_JOB) with the independent reference in wireless.cc on random
// inputs, for managers initialised with init_mb_mgr_sse / _avx2 / _avx512.
//
// usage: crosscheck [iterations-per-algorithm (default 3000)] [seed (default 1)] [--types]
//   --types additionally runs the per-type managers (sse t1..t3, avx2 t1..t2, avx512 t1..t2) via
//   the (non-public, but linkable) init_mb_mgr_<arch>_t<n>_internal entry points. The job
//   submission still goes exclusively through the public job API.
#include "wireless.h"
#include <intel-ipsec-mb.h>
#include <stdio.h>
#include <stdlib.h>
#include <random>
#include <string>
#include <map>
#include <algorithm>

extern "C" {
void init_mb_mgr_sse_t1_internal(IMB_MGR *, const int);
void init_mb_mgr_sse_t2_internal(IMB_MGR *, const int);
void init_mb_mgr_sse_t3_internal(IMB_MGR *, const int);
void init_mb_mgr_avx2_t1_internal(IMB_MGR *, const int);
void init_mb_mgr_avx2_t2_internal(IMB_MGR *, const int);
void init_mb_mgr_avx512_t1_internal(IMB_MGR *, const int);
void init_mb_mgr_avx512_t2_internal(IMB_MGR *, const int);
}

enum Alg {
        A_ZUC_EEA3,
        A_ZUC256_EEA3,
        A_ZUC_EIA3,
        A_ZUC256_EIA3,
        A_SNOW3G_UEA2,
        A_SNOW3G_UIA2,
        A_KASUMI_UEA1,
        A_KASUMI_UIA1,
        A_NUM
};
static const char *alg_name[A_NUM] = { "ZUC_EEA3",        "ZUC256_EEA3",        "ZUC_EIA3_BITLEN",
                                       "ZUC256_EIA3_BITLEN", "SNOW3G_UEA2_BITLEN", "SNOW3G_UIA2_BITLEN",
                                       "KASUMI_UEA1_BITLEN", "KASUMI_UIA1" };

struct Arch {
        std::string name;
        IMB_MGR *mgr;
};

static std::mt19937_64 rng;
static uint64_t rnd(uint64_t n) { return n ? rng() % n : 0; } // [0, n)
static void fill(uint8_t *p, size_t n)
{
        for (size_t i = 0; i < n; i++)
                p[i] = (uint8_t) rng();
}

// 64-byte aligned storage for keys / IVs / key schedules
struct Aligned {
        void *p = nullptr;
        explicit Aligned(size_t n)
        {
                if (posix_memalign(&p, 64, n ? n : 64))
                        abort();
                memset(p, 0, n ? n : 64);
        }
        ~Aligned() { free(p); }
        Aligned(const Aligned &) = delete;
        uint8_t *u8() { return (uint8_t *) p; }
};

static const size_t GUARD = 64;

struct Test {
        Alg alg;
        uint8_t key[32];
        uint8_t iv[32];
        size_t key_len, iv_len;
        Bytes buf;         // source buffer (offset + data + slack)
        size_t off_bytes;  // start offset inside buf
        uint64_t bits;     // message length in bits (ciphers in bytes: bits = 8*len)
        size_t tag_len;
        bool inplace;
        Bytes exp; // expected dst bytes (ciphers) or expected tag
        // per-run state
        Bytes dst;
        Bytes work; // in-place working copy of buf
};

static size_t nbytes(uint64_t bits) { return (size_t) ((bits + 7) / 8); }

static uint64_t pick_len_bytes(size_t maxlen)
{
        switch (rnd(10)) {
        case 0:
                return 1 + rnd(64);
        case 1:
                return std::min<uint64_t>(maxlen, 64 * (1 + rnd(31)) + rnd(3) - 1); // around 64*k
        case 2:
                return std::min<uint64_t>(maxlen, 16 * (1 + rnd(124)) + rnd(3) - 1);
        default:
                return 1 + rnd(maxlen);
        }
}

static void make_test(Test &t, Alg alg)
{
        t.alg = alg;
        fill(t.key, 32);
        fill(t.iv, 32);
        t.key_len = 16;
        t.iv_len = 16;
        t.tag_len = 4;
        t.inplace = false;
        t.off_bytes = rnd(4) == 0 ? 0 : rnd(33);
        size_t maxlen = 2000;
        bool bitlen = false;
        switch (alg) {
        case A_ZUC_EEA3:
                break;
        case A_ZUC256_EEA3:
        case A_ZUC256_EIA3:
                t.key_len = 32;
                t.iv_len = rnd(2) ? 25 : 23;
                if (t.iv_len == 25)
                        for (int i = 17; i < 25; i++)
                                t.iv[i] &= 0x3F; // the 6-bit IV elements, one per byte
                if (alg == A_ZUC256_EIA3) {
                        static const size_t tl[3] = { 4, 8, 16 };
                        t.tag_len = tl[rnd(3)];
                        bitlen = true;
                }
                break;
        case A_ZUC_EIA3:
        case A_SNOW3G_UEA2:
        case A_SNOW3G_UIA2:
        case A_KASUMI_UEA1:
                bitlen = true;
                if (alg == A_KASUMI_UEA1)
                        t.iv_len = 8;
                break;
        case A_KASUMI_UIA1:
                t.iv_len = 0;
                break;
        default:
                break;
        }
        // now and then a long message: up to the library limits (ZUC-EIA3 65504 bits,
        // KASUMI 20000 bits)
        if (rnd(20) == 0)
                maxlen = (alg == A_KASUMI_UEA1 || alg == A_KASUMI_UIA1) ? 2500 : 8188;
        uint64_t len = pick_len_bytes(maxlen);
        if (alg == A_KASUMI_UIA1 && len < 9)
                len = 9 + rnd(8); // library minimum: 9 bytes
        t.bits = len * 8;
        if (bitlen && rnd(4) != 0)
                t.bits -= rnd(8); // random bit length ending in the last byte
        if (t.bits == 0)
                t.bits = 1;
        t.buf.resize(t.off_bytes + nbytes(t.bits) + 8);
        fill(t.buf.data(), t.buf.size());
        const bool is_cipher = alg == A_ZUC_EEA3 || alg == A_ZUC256_EEA3 || alg == A_SNOW3G_UEA2 ||
                               alg == A_KASUMI_UEA1;
        if (is_cipher)
                t.inplace = rnd(3) == 0 && (t.off_bytes == 0 || (t.bits & 7) == 0);

        // ---- reference ----
        const uint8_t *m = t.buf.data() + t.off_bytes;
        const size_t n = nbytes(t.bits);
        switch (alg) {
        case A_ZUC_EEA3:
                t.exp.resize(n);
                ref_zuc_eea3(t.key, t.iv, m, t.exp.data(), n);
                break;
        case A_ZUC256_EEA3:
                t.exp.resize(n);
                ref_zuc256_eea3(t.key, t.iv, t.iv_len, m, t.exp.data(), n);
                break;
        case A_ZUC_EIA3:
                ref_zuc_eia3(t.key, t.iv, m, (uint32_t) t.bits, t.exp);
                break;
        case A_ZUC256_EIA3:
                ref_zuc256_eia3(t.key, t.iv, t.iv_len, m, (uint32_t) t.bits, t.tag_len, t.exp);
                break;
        case A_SNOW3G_UEA2: {
                t.exp.resize(n);
                ref_snow3g_f8_keystream(t.key, t.iv, t.exp.data(), n);
                for (size_t i = 0; i < n; i++)
                        t.exp[i] ^= m[i];
                break;
        }
        case A_SNOW3G_UIA2:
                ref_snow3g_uia2(t.key, t.iv, m, (uint32_t) t.bits, t.exp);
                break;
        case A_KASUMI_UEA1: {
                t.exp.resize(n);
                ref_kasumi_f8_keystream(t.key, t.iv, t.exp.data(), n);
                for (size_t i = 0; i < n; i++)
                        t.exp[i] ^= m[i];
                break;
        }
        case A_KASUMI_UIA1:
                ref_kasumi_f9_user(t.key, m, n, t.exp);
                break;
        default:
                break;
        }
}

struct Stats {
        uint64_t jobs = 0, mismatches = 0, guard_hits = 0, bad_status = 0;
        // trailing-bit behaviour of bit-length ciphers: number of cases consistent with each
        // hypothesis (hypotheses can coincide by chance for a single case), and total cases
        uint64_t tail[5] = { 0, 0, 0, 0, 0 }, tail_total = 0;
        // where the output of a cipher job with a non-zero source offset was found:
        // [0] at dst (documented: "cipher offset only applies to src"), [1] at dst + offset;
        // first index: 0 = bit length multiple of 8, 1 = not a multiple of 8
        uint64_t placed[2][2] = { { 0, 0 }, { 0, 0 } };
        std::vector<std::string> details;
};
static std::map<std::string, Stats> stats; // key: "<arch>/<alg>"
static const char *tail_name[5] = { "previous dst bits preserved",
                                    "src^keystream (whole byte ciphered)", "zeroed",
                                    "src bits copied", "raw keystream bits" };

static std::string hex(const uint8_t *p, size_t n)
{
        std::string s;
        char b[4];
        for (size_t i = 0; i < n; i++) {
                snprintf(b, sizeof b, "%02x", p[i]);
                s += b;
        }
        return s;
}

// first index (in bytes) at which the first `bits` bits of got / exp differ, or -1
static size_t first_diff(const uint8_t *got, const uint8_t *exp, uint64_t bits)
{
        const size_t full = (size_t) (bits / 8);
        for (size_t i = 0; i < full; i++)
                if (got[i] != exp[i])
                        return i;
        if (bits & 7) {
                const uint8_t mask = (uint8_t) (0xFF << (8 - (bits & 7)));
                if ((got[full] ^ exp[full]) & mask)
                        return full;
        }
        return (size_t) -1;
}

static void verify(const Arch &a, Test &t, const IMB_JOB *job)
{
        Stats &st = stats[a.name + "/" + alg_name[t.alg]];
        st.jobs++;
        if (job->status != IMB_STATUS_COMPLETED) {
                st.bad_status++;
                if (st.details.size() < 8)
                        st.details.push_back("job status " + std::to_string((int) job->status) +
                                             " bits=" + std::to_string(t.bits));
                return;
        }
        const bool is_cipher = t.alg == A_ZUC_EEA3 || t.alg == A_ZUC256_EEA3 ||
                               t.alg == A_SNOW3G_UEA2 || t.alg == A_KASUMI_UEA1;
        const size_t n = is_cipher ? nbytes(t.bits) : t.tag_len;
        const uint64_t cmp_bits = is_cipher ? t.bits : 8 * (uint64_t) n;

        // Where is the output?  Out-of-place cipher jobs get a destination with room for
        // both placements: at dst (documented) and at dst + source offset.
        uint8_t *base;      // buffer the output lives in
        size_t base_len;
        size_t start;       // index of the output inside base
        const uint8_t *untouched; // what every byte outside the output must still be (NULL = 0xA5)
        if (is_cipher && t.inplace) {
                base = t.work.data();
                base_len = t.work.size();
                start = t.off_bytes;
                untouched = t.buf.data();
        } else {
                base = t.dst.data();
                base_len = t.dst.size();
                start = GUARD;
                untouched = NULL;
        }
        // everything outside [st0, st0 + n) must be untouched
        auto outside_clean = [&](size_t st0) {
                for (size_t i = 0; i < base_len; i++) {
                        if (i >= st0 && i < st0 + n)
                                continue;
                        if (base[i] != (untouched ? untouched[i] : 0xA5))
                                return false;
                }
                return true;
        };
        size_t first = first_diff(base + start, t.exp.data(), cmp_bits);
        if (is_cipher && !t.inplace && t.off_bytes != 0) {
                // a placement hypothesis holds if the bits match AND nothing else was written
                // (very short messages can match the 0xA5 filler by chance)
                const size_t alt = GUARD + t.off_bytes;
                const size_t first1 = first_diff(base + alt, t.exp.data(), cmp_bits);
                const int nb = (t.bits & 7) ? 1 : 0;
                if (first == (size_t) -1 && outside_clean(start))
                        st.placed[nb][0]++;
                else if (first1 == (size_t) -1 && outside_clean(alt)) {
                        st.placed[nb][1]++;
                        start = alt;
                        first = first1;
                }
        }
        const uint8_t *got = base + start;

        if (first == (size_t) -1 && is_cipher && (t.bits & 7)) {
                // classify what happened to the bits after the message end in the last byte
                const size_t full = (size_t) (t.bits / 8);
                const uint8_t low = (uint8_t) (0xFF >> (t.bits & 7));
                const uint8_t g = got[full] & low;
                const uint8_t srcb = t.buf[t.off_bytes + full];
                const uint8_t orig_dst = t.inplace ? srcb : 0xA5;
                st.tail_total++;
                if (g == (orig_dst & low))
                        st.tail[0]++;
                if (g == (t.exp[full] & low))
                        st.tail[1]++;
                if (g == 0)
                        st.tail[2]++;
                if (g == (srcb & low))
                        st.tail[3]++;
                if (g == ((srcb ^ t.exp[full]) & low))
                        st.tail[4]++;
        }
        if (first != (size_t) -1) {
                st.mismatches++;
                if (st.details.size() < 8) {
                        char b[512];
                        snprintf(b, sizeof b,
                                 "MISMATCH bits=%llu (bytes=%zu) src_off=%zu iv_len=%zu tag_len=%zu "
                                 "inplace=%d first differing byte %zu: lib=%02x ref=%02x key=%s iv=%s",
                                 (unsigned long long) t.bits, nbytes(t.bits), t.off_bytes, t.iv_len,
                                 t.tag_len, (int) t.inplace, first, got[first], t.exp[first],
                                 hex(t.key, t.key_len).c_str(), hex(t.iv, t.iv_len).c_str());
                        st.details.push_back(b);
                }
                return;
        }
        // nothing may be written before / after the output
        const bool clean = outside_clean(start);
        if (!clean) {
                st.guard_hits++;
                if (st.details.size() < 8)
                        st.details.push_back("WRITE OUTSIDE OUTPUT bits=" + std::to_string(t.bits) +
                                             " off=" + std::to_string(t.off_bytes));
        }
}

struct Sched {
        std::vector<Aligned *> v;
        ~Sched()
        {
                for (auto *a : v)
                        delete a;
        }
        uint8_t *get(size_t n)
        {
                v.push_back(new Aligned(n));
                return v.back()->u8();
        }
};

static void run_batch(const Arch &a, std::vector<Test> &batch)
{
        IMB_MGR *mgr = a.mgr;
        Sched mem;
        size_t done = 0;
        auto handle = [&](IMB_JOB *job) {
                while (job) {
                        Test &t = batch[(size_t) (uintptr_t) job->user_data];
                        verify(a, t, job);
                        done++;
                        job = IMB_GET_COMPLETED_JOB(mgr);
                }
        };
        for (size_t idx = 0; idx < batch.size(); idx++) {
                Test &t = batch[idx];
                const bool is_cipher = t.alg == A_ZUC_EEA3 || t.alg == A_ZUC256_EEA3 ||
                                       t.alg == A_SNOW3G_UEA2 || t.alg == A_KASUMI_UEA1;
                const size_t outn = is_cipher ? nbytes(t.bits) : t.tag_len;
                t.dst.assign(GUARD + (is_cipher ? t.off_bytes : 0) + outn + GUARD, 0xA5);
                t.work = t.buf;
                uint8_t *key = mem.get(32), *iv = mem.get(32);
                memcpy(key, t.key, 32);
                memcpy(iv, t.iv, 32);

                IMB_JOB *job = IMB_GET_NEXT_JOB(mgr);
                memset(job, 0, sizeof(*job));
                job->user_data = (void *) (uintptr_t) idx;
                job->chain_order = IMB_ORDER_CIPHER_HASH;
                job->cipher_direction = rnd(2) ? IMB_DIR_ENCRYPT : IMB_DIR_DECRYPT;
                job->cipher_mode = IMB_CIPHER_NULL;
                job->hash_alg = IMB_AUTH_NULL;
                const uint8_t *src = t.inplace ? t.work.data() : t.buf.data();
                job->src = src;
                if (is_cipher) {
                        job->dst = t.inplace ? t.work.data() + t.off_bytes : t.dst.data() + GUARD;
                        job->iv = iv;
                        job->iv_len_in_bytes = t.iv_len;
                        job->key_len_in_bytes = t.key_len;
                } else {
                        job->auth_tag_output = t.dst.data() + GUARD;
                        job->auth_tag_output_len_in_bytes = t.tag_len;
                        job->hash_start_src_offset_in_bytes = t.off_bytes;
                }
                switch (t.alg) {
                case A_ZUC_EEA3:
                case A_ZUC256_EEA3:
                        job->cipher_mode = IMB_CIPHER_ZUC_EEA3;
                        job->enc_keys = key;
                        job->dec_keys = key;
                        job->cipher_start_src_offset_in_bytes = t.off_bytes;
                        job->msg_len_to_cipher_in_bytes = t.bits / 8;
                        break;
                case A_ZUC_EIA3:
                        job->hash_alg = IMB_AUTH_ZUC_EIA3_BITLEN;
                        job->u.ZUC_EIA3._key = key;
                        job->u.ZUC_EIA3._iv = iv;
                        job->msg_len_to_hash_in_bits = t.bits;
                        break;
                case A_ZUC256_EIA3:
                        job->hash_alg = IMB_AUTH_ZUC256_EIA3_BITLEN;
                        job->u.ZUC_EIA3._key = key;
                        if (t.iv_len == 23)
                                job->u.ZUC_EIA3._iv23 = iv;
                        else
                                job->u.ZUC_EIA3._iv = iv;
                        job->msg_len_to_hash_in_bits = t.bits;
                        break;
                case A_SNOW3G_UEA2: {
                        uint8_t *ks = mem.get(IMB_SNOW3G_KEY_SCHED_SIZE(mgr));
                        IMB_SNOW3G_INIT_KEY_SCHED(mgr, key, (snow3g_key_schedule_t *) ks);
                        job->cipher_mode = IMB_CIPHER_SNOW3G_UEA2_BITLEN;
                        job->enc_keys = ks;
                        job->dec_keys = ks;
                        job->cipher_start_src_offset_in_bits = t.off_bytes * 8;
                        job->msg_len_to_cipher_in_bits = t.bits;
                        break;
                }
                case A_SNOW3G_UIA2: {
                        uint8_t *ks = mem.get(IMB_SNOW3G_KEY_SCHED_SIZE(mgr));
                        IMB_SNOW3G_INIT_KEY_SCHED(mgr, key, (snow3g_key_schedule_t *) ks);
                        job->hash_alg = IMB_AUTH_SNOW3G_UIA2_BITLEN;
                        job->u.SNOW3G_UIA2._key = ks;
                        job->u.SNOW3G_UIA2._iv = iv;
                        job->msg_len_to_hash_in_bits = t.bits;
                        break;
                }
                case A_KASUMI_UEA1: {
                        uint8_t *ks = mem.get(IMB_KASUMI_KEY_SCHED_SIZE(mgr));
                        IMB_KASUMI_INIT_F8_KEY_SCHED(mgr, key, (kasumi_key_sched_t *) ks);
                        job->cipher_mode = IMB_CIPHER_KASUMI_UEA1_BITLEN;
                        job->enc_keys = ks;
                        job->dec_keys = ks;
                        job->cipher_start_src_offset_in_bits = t.off_bytes * 8;
                        job->msg_len_to_cipher_in_bits = t.bits;
                        break;
                }
                case A_KASUMI_UIA1: {
                        uint8_t *ks = mem.get(IMB_KASUMI_KEY_SCHED_SIZE(mgr));
                        IMB_KASUMI_INIT_F9_KEY_SCHED(mgr, key, (kasumi_key_sched_t *) ks);
                        job->hash_alg = IMB_AUTH_KASUMI_UIA1;
                        job->u.KASUMI_UIA1._key = ks;
                        job->msg_len_to_hash_in_bytes = t.bits / 8;
                        break;
                }
                default:
                        break;
                }
                job = IMB_SUBMIT_JOB(mgr);
                if (job == NULL) {
                        const int err = imb_get_errno(mgr);
                        if (err != 0) {
                                Stats &st = stats[a.name + "/" + alg_name[t.alg]];
                                st.bad_status++;
                                if (st.details.size() < 8)
                                        st.details.push_back(std::string("submit error: ") +
                                                             imb_get_strerror(err) + " bits=" +
                                                             std::to_string(t.bits));
                        }
                }
                handle(job);
        }
        IMB_JOB *job;
        while ((job = IMB_FLUSH_JOB(mgr)) != NULL)
                handle(job);
        if (done != batch.size()) {
                Stats &st = stats[a.name + "/" + alg_name[batch[0].alg]];
                st.bad_status += batch.size() - done;
                st.details.push_back("jobs lost: submitted " + std::to_string(batch.size()) +
                                     " completed " + std::to_string(done));
                // drain invalid jobs
                while (IMB_GET_COMPLETED_JOB(mgr) != NULL)
                        ;
        }
}

// Is a zero-length job accepted?  (reference handles len 0; the library's checker rejects it)
static void probe_zero_len(const Arch &a)
{
        IMB_MGR *mgr = a.mgr;
        printf("  zero-length jobs on %s:", a.name.c_str());
        for (int alg = 0; alg < A_NUM; alg++) {
                Aligned key(64), iv(64), ks(8192);
                uint8_t buf[64] = { 0 }, out[64];
                IMB_JOB *job = IMB_GET_NEXT_JOB(mgr);
                memset(job, 0, sizeof(*job));
                job->chain_order = IMB_ORDER_CIPHER_HASH;
                job->cipher_direction = IMB_DIR_ENCRYPT;
                job->cipher_mode = IMB_CIPHER_NULL;
                job->hash_alg = IMB_AUTH_NULL;
                job->src = buf;
                job->dst = out;
                job->auth_tag_output = out;
                job->auth_tag_output_len_in_bytes = 4;
                job->iv = iv.u8();
                switch (alg) {
                case A_ZUC_EEA3:
                case A_ZUC256_EEA3:
                        job->cipher_mode = IMB_CIPHER_ZUC_EEA3;
                        job->enc_keys = key.u8();
                        job->key_len_in_bytes = alg == A_ZUC_EEA3 ? 16 : 32;
                        job->iv_len_in_bytes = alg == A_ZUC_EEA3 ? 16 : 25;
                        break;
                case A_ZUC_EIA3:
                case A_ZUC256_EIA3:
                        job->hash_alg = alg == A_ZUC_EIA3 ? IMB_AUTH_ZUC_EIA3_BITLEN
                                                          : IMB_AUTH_ZUC256_EIA3_BITLEN;
                        job->u.ZUC_EIA3._key = key.u8();
                        job->u.ZUC_EIA3._iv = iv.u8();
                        break;
                case A_SNOW3G_UEA2:
                        IMB_SNOW3G_INIT_KEY_SCHED(mgr, key.u8(), (snow3g_key_schedule_t *) ks.p);
                        job->cipher_mode = IMB_CIPHER_SNOW3G_UEA2_BITLEN;
                        job->enc_keys = ks.p;
                        job->key_len_in_bytes = 16;
                        job->iv_len_in_bytes = 16;
                        break;
                case A_SNOW3G_UIA2:
                        IMB_SNOW3G_INIT_KEY_SCHED(mgr, key.u8(), (snow3g_key_schedule_t *) ks.p);
                        job->hash_alg = IMB_AUTH_SNOW3G_UIA2_BITLEN;
                        job->u.SNOW3G_UIA2._key = ks.p;
                        job->u.SNOW3G_UIA2._iv = iv.u8();
                        break;
                case A_KASUMI_UEA1:
                        IMB_KASUMI_INIT_F8_KEY_SCHED(mgr, key.u8(), (kasumi_key_sched_t *) ks.p);
                        job->cipher_mode = IMB_CIPHER_KASUMI_UEA1_BITLEN;
                        job->enc_keys = ks.p;
                        job->key_len_in_bytes = 16;
                        job->iv_len_in_bytes = 8;
                        break;
                case A_KASUMI_UIA1:
                        IMB_KASUMI_INIT_F9_KEY_SCHED(mgr, key.u8(), (kasumi_key_sched_t *) ks.p);
                        job->hash_alg = IMB_AUTH_KASUMI_UIA1;
                        job->u.KASUMI_UIA1._key = ks.p;
                        break;
                }
                job = IMB_SUBMIT_JOB(mgr);
                const int err = imb_get_errno(mgr);
                printf(" %s=%s", alg_name[alg],
                       err ? "rejected" : (job ? "accepted" : "queued"));
                while (IMB_FLUSH_JOB(mgr) != NULL)
                        ;
                while (IMB_GET_COMPLETED_JOB(mgr) != NULL)
                        ;
        }
        printf("\n");
}

// What does the library do with the two undefined upper bits of IV[17..24] in the 25-byte form?
static void probe_zuc256_iv_high_bits(const Arch &a)
{
        IMB_MGR *mgr = a.mgr;
        unsigned agree_masked = 0, total = 0;
        for (int it = 0; it < 64; it++) {
                Aligned key(64), iv(64);
                fill(key.u8(), 32);
                fill(iv.u8(), 25);
                iv.u8()[17 + rnd(8)] |= 0x40 << rnd(2); // make sure a high bit is set
                uint8_t src[96], out[96], exp[96];
                fill(src, sizeof src);
                IMB_JOB *job = IMB_GET_NEXT_JOB(mgr);
                memset(job, 0, sizeof(*job));
                job->chain_order = IMB_ORDER_CIPHER_HASH;
                job->cipher_direction = IMB_DIR_ENCRYPT;
                job->cipher_mode = IMB_CIPHER_ZUC_EEA3;
                job->hash_alg = IMB_AUTH_NULL;
                job->src = src;
                job->dst = out;
                job->iv = iv.u8();
                job->iv_len_in_bytes = 25;
                job->enc_keys = key.u8();
                job->key_len_in_bytes = 32;
                job->msg_len_to_cipher_in_bytes = sizeof src;
                job = IMB_SUBMIT_JOB(mgr);
                if (job == NULL)
                        job = IMB_FLUSH_JOB(mgr);
                while (IMB_FLUSH_JOB(mgr) != NULL)
                        ;
                ref_zuc256_eea3(key.u8(), iv.u8(), 25, src, exp, sizeof src); // masks to 6 bits
                total++;
                if (memcmp(out, exp, sizeof src) == 0)
                        agree_masked++;
        }
        printf("  ZUC-256 25-byte IV with bits 6/7 set in IV[17..24] on %s: library == reference "
               "(which masks to 6 bits) in %u of %u cases\n",
               a.name.c_str(), agree_masked, total);
}

int main(int argc, char **argv)
{
        unsigned iters = 3000;
        uint64_t seed = 1;
        bool types = false;
        int pos = 0;
        for (int i = 1; i < argc; i++) {
                if (strcmp(argv[i], "--types") == 0)
                        types = true;
                else if (pos == 0) {
                        iters = (unsigned) strtoul(argv[i], NULL, 0);
                        pos++;
                } else
                        seed = strtoull(argv[i], NULL, 0);
        }
        rng.seed(seed);

        std::vector<Arch> archs;
        struct {
                const char *name;
                void (*pub)(IMB_MGR *);
                void (*priv)(IMB_MGR *, const int);
                bool extra;
        } defs[] = {
                { "sse", init_mb_mgr_sse, NULL, false },
                { "avx2", init_mb_mgr_avx2, NULL, false },
                { "avx512", init_mb_mgr_avx512, NULL, false },
                { "sse_t1", NULL, init_mb_mgr_sse_t1_internal, true },
                { "sse_t2", NULL, init_mb_mgr_sse_t2_internal, true },
                { "sse_t3", NULL, init_mb_mgr_sse_t3_internal, true },
                { "avx2_t1", NULL, init_mb_mgr_avx2_t1_internal, true },
                { "avx2_t2", NULL, init_mb_mgr_avx2_t2_internal, true },
                { "avx512_t1", NULL, init_mb_mgr_avx512_t1_internal, true },
                { "avx512_t2", NULL, init_mb_mgr_avx512_t2_internal, true },
        };
        for (auto &d : defs) {
                if (d.extra && !types)
                        continue;
                IMB_MGR *m = alloc_mb_mgr(0);
                if (!m) {
                        printf("alloc_mb_mgr failed\n");
                        return 2;
                }
                if (d.pub)
                        d.pub(m);
                else
                        d.priv(m, 1);
                const int err = imb_get_errno(m);
                if (err != 0) {
                        printf("init %s: error %d (%s) - skipped\n", d.name, err,
                               imb_get_strerror(err));
                        free_mb_mgr(m);
                        continue;
                }
                printf("manager %-10s used_arch=%u used_arch_type=%u\n", d.name, m->used_arch,
                       (unsigned) m->used_arch_type);
                archs.push_back({ d.name, m });
        }
        printf("library version %s, iterations per algorithm %u, seed %llu\n\n", imb_get_version_str(),
               iters, (unsigned long long) seed);

        for (int alg = 0; alg < A_NUM; alg++) {
                unsigned made = 0;
                while (made < iters) {
                        const size_t bsz = std::min<size_t>(iters - made, 1 + rnd(40));
                        std::vector<Test> batch(bsz);
                        for (auto &t : batch)
                                make_test(t, (Alg) alg);
                        for (auto &a : archs)
                                run_batch(a, batch);
                        made += (unsigned) bsz;
                }
                fprintf(stderr, "%s done\n", alg_name[alg]);
        }

        printf("%-34s %8s %10s %10s %10s\n", "arch/algorithm", "jobs", "mismatch", "badstatus",
               "outside-wr");
        uint64_t bad = 0;
        for (auto &kv : stats) {
                const Stats &s = kv.second;
                printf("%-34s %8llu %10llu %10llu %10llu\n", kv.first.c_str(),
                       (unsigned long long) s.jobs, (unsigned long long) s.mismatches,
                       (unsigned long long) s.bad_status, (unsigned long long) s.guard_hits);
                bad += s.mismatches + s.bad_status + s.guard_hits;
        }
        printf("\nDetails of disagreements (first 8 per arch/algorithm):\n");
        for (auto &kv : stats)
                for (auto &d : kv.second.details)
                        printf("  %s: %s\n", kv.first.c_str(), d.c_str());
        if (!bad)
                printf("  none\n");

        printf("\nBits after the message end in the last output byte (bit-length ciphers, "
               "length %% 8 != 0):\n");
        for (auto &kv : stats) {
                const Stats &s = kv.second;
                if (!s.tail_total)
                        continue;
                printf("  %-30s %llu cases;", kv.first.c_str(), (unsigned long long) s.tail_total);
                for (int i = 0; i < 5; i++)
                        printf(" [%s: %llu]", tail_name[i], (unsigned long long) s.tail[i]);
                printf("\n");
        }

        printf("\nPlacement of the output of out-of-place cipher jobs with non-zero source offset\n"
               "(documented: offset applies to src only => output at dst):\n");
        for (auto &kv : stats) {
                const Stats &s = kv.second;
                if (!(s.placed[0][0] + s.placed[0][1] + s.placed[1][0] + s.placed[1][1]))
                        continue;
                printf("  %-30s len%%8==0: at dst %llu, at dst+off %llu | len%%8!=0: at dst %llu, "
                       "at dst+off %llu\n",
                       kv.first.c_str(), (unsigned long long) s.placed[0][0],
                       (unsigned long long) s.placed[0][1], (unsigned long long) s.placed[1][0],
                       (unsigned long long) s.placed[1][1]);
        }

        printf("\nProbes:\n");
        for (auto &a : archs)
                probe_zero_len(a);
        for (auto &a : archs)
                probe_zuc256_iv_high_bits(a);

        printf("\n%s\n", bad ? "CROSS-CHECK: DISAGREEMENTS FOUND" : "CROSS-CHECK: ALL AGREE");
        for (auto &a : archs)
                free_mb_mgr(a.mgr);
        return bad ? 1 : 0;
}

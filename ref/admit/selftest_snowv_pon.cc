// Self test of the reference implementations against the official / KAT vectors.
// Vector data is taken (as data only) from /repo/test/kat-app:
//   vectors/snow_v_test.json.c, vectors/snow_v_aead.json.c  (verbatim copies)
//   vectors/pon_vectors.h                                   (arrays transcribed from pon_test.c)
#include <climits>
#include <cstdio>
#include <cstring>

#include "snowv_pon.h"

#include "vectors/snow_v_test.json.c"
#include "vectors/snow_v_aead.json.c"
#ifndef NO_PON
#include "vectors/pon_vectors.h"
#endif

static int n_pass, n_fail;

static void
check(bool ok, const char *what, size_t id)
{
        if (ok) {
                n_pass++;
        } else {
                n_fail++;
                printf("FAIL: %s #%zu\n", what, id);
        }
}

static void
hexdump(const char *name, const uint8_t *p, size_t n)
{
        printf("  %s:", name);
        for (size_t i = 0; i < n; i++)
                printf(" %02x", p[i]);
        printf("\n");
}

static void
test_snow_v()
{
        size_t cnt = 0;
        for (const struct cipher_test *v = snow_v_test_json; v->msg != NULL; v++, cnt++) {
                if (v->keySize != 256 || v->ivSize != 128 || (v->msgSize % CHAR_BIT) != 0) {
                        check(false, "SNOW-V vector shape", v->tcId);
                        continue;
                }
                const size_t len = v->msgSize / CHAR_BIT;
                Bytes out(len + 1, 0xa5);
                const bool ok = ref_snow_v((const uint8_t *) v->key, (const uint8_t *) v->iv,
                                           (const uint8_t *) v->msg, out.data(), len);
                const bool match = ok && memcmp(out.data(), v->ct, len) == 0 && out[len] == 0xa5;
                check(match, "SNOW-V encrypt", v->tcId);
                if (!match && len) {
                        hexdump("expected", (const uint8_t *) v->ct, len < 32 ? len : 32);
                        hexdump("received", out.data(), len < 32 ? len : 32);
                }
                // and back (in place)
                Bytes back((const uint8_t *) v->ct, (const uint8_t *) v->ct + len);
                ref_snow_v((const uint8_t *) v->key, (const uint8_t *) v->iv, back.data(),
                           back.data(), len);
                check(memcmp(back.data(), v->msg, len) == 0, "SNOW-V decrypt", v->tcId);
        }
        printf("SNOW-V: %zu vectors\n", cnt);
}

static void
test_snow_v_aead()
{
        size_t cnt = 0;
        for (const struct aead_test *v = snow_v_aead_json; v->msg != NULL; v++, cnt++) {
                if (v->keySize != 256 || v->ivSize != 128 || v->tagSize != 128 ||
                    (v->msgSize % CHAR_BIT) != 0 || (v->aadSize % CHAR_BIT) != 0) {
                        check(false, "SNOW-V-AEAD vector shape", v->tcId);
                        continue;
                }
                const size_t len = v->msgSize / CHAR_BIT;
                const size_t aad_len = v->aadSize / CHAR_BIT;
                for (int enc = 1; enc >= 0; enc--) {
                        Bytes out(len + 1, 0xa5);
                        uint8_t tag[16];
                        const uint8_t *in = (const uint8_t *) (enc ? v->msg : v->ct);
                        const uint8_t *exp = (const uint8_t *) (enc ? v->ct : v->msg);
                        const bool ok = ref_snow_v_aead(enc != 0, (const uint8_t *) v->key,
                                                        (const uint8_t *) v->iv,
                                                        (const uint8_t *) v->aad, aad_len, in,
                                                        out.data(), len, tag);
                        const bool m1 = ok && memcmp(out.data(), exp, len) == 0 && out[len] == 0xa5;
                        const bool m2 = ok && memcmp(tag, v->tag, 16) == 0;
                        check(m1, enc ? "SNOW-V-AEAD enc text" : "SNOW-V-AEAD dec text", v->tcId);
                        check(m2, enc ? "SNOW-V-AEAD enc tag" : "SNOW-V-AEAD dec tag", v->tcId);
                        if (!m2) {
                                hexdump("expected tag", (const uint8_t *) v->tag, 16);
                                hexdump("received tag", tag, 16);
                        }
                        // in-place operation must give the same result
                        Bytes buf(in, in + len);
                        uint8_t tag2[16];
                        ref_snow_v_aead(enc != 0, (const uint8_t *) v->key,
                                        (const uint8_t *) v->iv, (const uint8_t *) v->aad,
                                        aad_len, buf.data(), buf.data(), len, tag2);
                        check(memcmp(buf.data(), exp, len) == 0 && memcmp(tag2, v->tag, 16) == 0,
                              "SNOW-V-AEAD in-place", v->tcId);
                }
        }
        printf("SNOW-V-AEAD: %zu vectors (both directions)\n", cnt);
}

#ifndef NO_PON
static void
test_pon()
{
        const size_t n = sizeof(pon_vectors) / sizeof(pon_vectors[0]);
        for (size_t i = 0; i < n; i++) {
                const struct pon_test_vector *v = &pon_vectors[i];
                const size_t flen = v->length_to_bip;
                const uint32_t pli = (((uint32_t) v->in[0] << 8) | v->in[1]) >> 2;
                const uint8_t bip_le[4] = { (uint8_t) v->bip_out, (uint8_t) (v->bip_out >> 8),
                                            (uint8_t) (v->bip_out >> 16),
                                            (uint8_t) (v->bip_out >> 24) };

                // vectors 10, 12, 13 carry more padding than ((PLI + 3) & ~3): XGEM payloads are
                // padded to at least 8 bytes
                if (flen < 8 + ((pli + 3) & ~3u) || (flen & 3) != 0) {
                        check(false, "PON vector shape", i + 1);
                        continue;
                }

                // ---- encrypt: same preparation as the kat-app (HEC and CRC corrupted) --------
                {
                        Bytes in(v->in, v->in + flen), out(flen + 1, 0xa5);
                        uint8_t tag[8];
                        in[7] ^= 0xff; // HEC must be regenerated
                        if (pli > 4)   // FCS must be regenerated
                                for (int k = 0; k < 4; k++)
                                        in[8 + pli - 4 + k] ^= 0xff;
                        const bool ok =
                                ref_pon(true, v->key, v->iv, in.data(), out.data(), flen, pli, tag);
                        const bool m = ok && memcmp(out.data(), v->out, flen) == 0 &&
                                       out[flen] == 0xa5;
                        check(m, "PON encrypt frame", i + 1);
                        if (!m) {
                                hexdump("expected", v->out, flen);
                                hexdump("received", out.data(), flen);
                        }
                        check(ok && memcmp(tag, bip_le, 4) == 0, "PON encrypt BIP", i + 1);
                        if (pli > 4) // CRC word of the tag = CRC that was written into the frame
                                check(ok && memcmp(tag + 4, v->in + 8 + pli - 4, 4) == 0,
                                      "PON encrypt CRC", i + 1);
                        // in place
                        uint8_t tag2[8];
                        ref_pon(true, v->key, v->iv, in.data(), in.data(), flen, pli, tag2);
                        check(memcmp(in.data(), v->out, flen) == 0 && memcmp(tag, tag2, 8) == 0,
                              "PON encrypt in-place", i + 1);
                }
                // ---- decrypt ------------------------------------------------------------------
                {
                        Bytes out(flen + 1, 0xa5);
                        uint8_t tag[8];
                        const bool ok =
                                ref_pon(false, v->key, v->iv, v->out, out.data(), flen, pli, tag);
                        // the kat-app compares all but the last 4 bytes of the frame; the
                        // reference is expected to reproduce the complete input frame
                        const bool m = ok && memcmp(out.data(), v->in, flen) == 0 &&
                                       out[flen] == 0xa5;
                        check(m, "PON decrypt frame", i + 1);
                        if (!m) {
                                hexdump("expected", v->in, flen);
                                hexdump("received", out.data(), flen);
                        }
                        check(ok && memcmp(tag, bip_le, 4) == 0, "PON decrypt BIP", i + 1);
                        if (pli > 4)
                                check(ok && memcmp(tag + 4, v->in + 8 + pli - 4, 4) == 0,
                                      "PON decrypt CRC", i + 1);
                }
        }
        printf("PON: %zu vectors (both directions)\n", n);
}
#endif

#ifndef NO_PON
// XGEM HEC vectors of hec_test.c
static void
test_hec()
{
        const size_t n = sizeof(pf51_hec13) / sizeof(pf51_hec13[0]);
        for (size_t i = 0; i < n; i++) {
                uint8_t good[8], in[8], out[8];
                for (int k = 0; k < 8; k++)
                        good[k] = (uint8_t) (pf51_hec13[i] >> (8 * k));
                // variant 1: the 13 HEC bits cleared; variant 2: HEC bits inverted
                for (int variant = 0; variant < 2; variant++) {
                        memcpy(in, good, 8);
                        if (variant == 0) {
                                in[6] &= 0xe0;
                                in[7] = 0;
                        } else {
                                in[6] ^= 0x1f;
                                in[7] ^= 0xff;
                        }
                        ref_xgem_hec64(in, out);
                        const bool m = memcmp(out, good, 8) == 0;
                        check(m, "XGEM HEC", i + 1);
                        if (!m) {
                                hexdump("expected", good, 8);
                                hexdump("received", out, 8);
                        }
                }
        }
        printf("XGEM HEC: %zu vectors\n", n);
}

// The AES-128-CTR part of ref_pon against OpenSSL (independent implementation): decrypt
// direction with PLI <= 4 headers and longer frames does nothing but BIP + CTR.
#include <openssl/evp.h>
static void
test_pon_ctr_vs_openssl()
{
        unsigned long long x = 88172645463325252ULL; // xorshift64
        auto next = [&x]() {
                x ^= x << 13;
                x ^= x >> 7;
                x ^= x << 17;
                return x;
        };
        size_t cnt = 0;
        for (int it = 0; it < 300; it++, cnt++) {
                const uint32_t pli = 5 + (uint32_t) (next() % 1500);
                const size_t flen = 8 + ((pli + 3) & ~3u);
                Bytes in(flen), out(flen), exp(flen);
                uint8_t key[16], iv[16], tag[8];
                for (auto &b : in)
                        b = (uint8_t) next();
                for (auto &b : key)
                        b = (uint8_t) next();
                for (auto &b : iv)
                        b = (uint8_t) next();
                // force counter carries across byte / 32-bit / 64-bit / 128-bit boundaries
                const int ones = (it % 5 == 0) ? 0 : (int) (next() % 17);
                for (int k = 0; k < ones; k++)
                        iv[15 - k] = 0xff;
                if (ones > 0 && ones <= 16)
                        iv[15] = (uint8_t) (0xff - next() % 4);
                in[0] = (uint8_t) (pli >> 6);
                in[1] = (uint8_t) ((pli << 2) | (in[1] & 3));

                const bool ok = ref_pon(false, key, iv, in.data(), out.data(), flen, pli, tag);

                exp = in;
                EVP_CIPHER_CTX *ctx = EVP_CIPHER_CTX_new();
                int outl = 0;
                EVP_EncryptInit_ex(ctx, EVP_aes_128_ctr(), NULL, key, iv);
                EVP_EncryptUpdate(ctx, exp.data() + 8, &outl, in.data() + 8, (int) (flen - 8));
                EVP_CIPHER_CTX_free(ctx);
                check(ok && outl == (int) (flen - 8) && exp == out, "PON CTR vs OpenSSL",
                      (size_t) it);
        }
        printf("PON AES-128-CTR vs OpenSSL: %zu random frames\n", cnt);
}
#endif

int
main()
{
        test_snow_v();
        test_snow_v_aead();
#ifndef NO_PON
        test_pon();
        test_hec();
        test_pon_ctr_vs_openssl();
#endif
        printf("checks passed: %d, failed: %d\n", n_pass, n_fail);
        printf("%s\n", n_fail == 0 ? "SELFTEST PASS" : "SELFTEST FAIL");
        return n_fail == 0 ? 0 : 1;
}

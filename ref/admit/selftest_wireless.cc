// selftest.cc - checks the reference implementations in wireless.cc against the official
// specification test vectors (taken as DATA from the repository's kat-app vector files, copied
// to ./vectors) and validates the constant tables structurally.
//
// Build:  see build.sh   (g++ -std=c++17 -O1 selftest.cc wireless.cc vectors/*.o)
#include "wireless.h"
#include <stdio.h>
#include <stdlib.h>
#include <string>

extern "C" {
#include "vectors/cipher_test.h"
#include "vectors/mac_test.h"
extern const struct cipher_test zuc_eea3_128_test_json[];
extern const struct cipher_test zuc_eea3_256_test_json[];
extern const struct mac_test zuc_eia3_128_test_json[];
extern const struct mac_test zuc_eia3_256_test_json[];
extern const struct cipher_test snow3g_cipher_bit_test_vectors_json[];
extern const struct cipher_test snow3g_cipher_linear_test_vectors_json[];
extern const struct cipher_test snow3g_cipher_test_vectors_json[];
extern const struct mac_test snow3g_hash_test_vectors_json[];
extern const struct cipher_test kasumi_f8_json[];
extern const struct mac_test kasumi_f9_json[];
}

struct Row {
        std::string what;
        int total = 0, pass = 0, nonbyte = 0, over64 = 0;
};
static std::vector<Row> rows;
static int failures = 0;

static const uint8_t *U(const char *p) { return (const uint8_t *) p; }

// compare the first `bits` bits
static bool eq_bits(const uint8_t *a, const uint8_t *b, size_t bits)
{
        const size_t full = bits / 8;
        if (memcmp(a, b, full) != 0)
                return false;
        if (bits & 7) {
                const uint8_t m = (uint8_t) (0xFF << (8 - (bits & 7)));
                if ((a[full] ^ b[full]) & m)
                        return false;
        }
        return true;
}

static void record(Row &r, bool ok, size_t bits, const char *set, size_t tc)
{
        r.total++;
        if (bits & 7)
                r.nonbyte++;
        if (bits > 64 * 8)
                r.over64++;
        if (ok)
                r.pass++;
        else {
                failures++;
                printf("  FAIL %s: set %s tcId %zu (%zu bits)\n", r.what.c_str(), set, tc, bits);
        }
}

// ---------------------------------------------------------------- IV construction (from specs)
// TS 35.221 (128-EEA3): IV[0..3] = COUNT, IV[4] = BEARER(5) | DIRECTION(1) | 00, IV[5..7] = 0,
// IV[8..15] = IV[0..7]
static void eea3_iv(uint32_t count, uint8_t bearer, uint8_t dir, uint8_t iv[16])
{
        memset(iv, 0, 16);
        iv[0] = count >> 24;
        iv[1] = count >> 16;
        iv[2] = count >> 8;
        iv[3] = count;
        iv[4] = (uint8_t) (((bearer & 0x1F) << 3) | ((dir & 1) << 2));
        memcpy(iv + 8, iv, 8);
}
// 128-EIA3: IV[0..3] = COUNT, IV[4] = BEARER | 000, IV[5..7] = 0, IV[8] = IV[0] ^ DIR<<7,
// IV[9..13] = IV[1..5], IV[14] = IV[6] ^ DIR<<7, IV[15] = IV[7]
static void eia3_iv(uint32_t count, uint8_t bearer, uint8_t dir, uint8_t iv[16])
{
        memset(iv, 0, 16);
        iv[0] = count >> 24;
        iv[1] = count >> 16;
        iv[2] = count >> 8;
        iv[3] = count;
        iv[4] = (uint8_t) ((bearer & 0x1F) << 3);
        memcpy(iv + 8, iv, 8);
        iv[8] ^= (uint8_t) ((dir & 1) << 7);
        iv[14] ^= (uint8_t) ((dir & 1) << 7);
}
// the vector files store COUNT as a little-endian uint32 followed by bearer, direction
static uint32_t le32(const uint8_t *p)
{
        return p[0] | ((uint32_t) p[1] << 8) | ((uint32_t) p[2] << 16) | ((uint32_t) p[3] << 24);
}

// ---------------------------------------------------------------- ZUC
static void test_zuc_eea3()
{
        Row r;
        r.what = "ref_zuc_eea3 (128-EEA3)";
        for (const cipher_test *v = zuc_eea3_128_test_json; v->msg != NULL; v++) {
                uint8_t iv[16];
                if (v->ivSize == 48)
                        eea3_iv(le32(U(v->iv)), U(v->iv)[4], U(v->iv)[5], iv);
                else
                        memcpy(iv, v->iv, 16);
                const size_t n = (v->msgSize + 7) / 8;
                Bytes out(n + 1, 0xA5);
                ref_zuc_eea3(U(v->key), iv, U(v->msg), out.data(), n);
                bool ok = eq_bits(out.data(), U(v->ct), v->msgSize) && out[n] == 0xA5;
                // decrypt direction
                Bytes back(n + 1);
                ref_zuc_eea3(U(v->key), iv, out.data(), back.data(), n);
                ok = ok && memcmp(back.data(), v->msg, n) == 0;
                record(r, ok, v->msgSize, "zuc_eea3_128", v->tcId);
        }
        rows.push_back(r);

        Row r2;
        r2.what = "ref_zuc256_eea3 (ZUC-256)";
        int n23 = 0, n25 = 0;
        for (const cipher_test *v = zuc_eea3_256_test_json; v->msg != NULL; v++) {
                const size_t n = (v->msgSize + 7) / 8;
                Bytes out(n + 1, 0xA5);
                ref_zuc256_eea3(U(v->key), U(v->iv), v->ivSize / 8, U(v->msg), out.data(), n);
                const bool ok = eq_bits(out.data(), U(v->ct), v->msgSize) && out[n] == 0xA5;
                (v->ivSize == 184 ? n23 : n25)++;
                record(r2, ok, v->msgSize, "zuc_eea3_256", v->tcId);
        }
        r2.what += " [" + std::to_string(n25) + " with 25-byte IV, " + std::to_string(n23) +
                   " with 23-byte IV]";
        rows.push_back(r2);
}

static void test_zuc_eia3()
{
        Row r;
        r.what = "ref_zuc_eia3 (128-EIA3)";
        for (const mac_test *v = zuc_eia3_128_test_json; v->msg != NULL; v++) {
                uint8_t iv[16];
                if (v->ivSize == 48)
                        eia3_iv(le32(U(v->iv)), U(v->iv)[4], U(v->iv)[5], iv);
                else
                        memcpy(iv, v->iv, 16);
                Bytes tag;
                ref_zuc_eia3(U(v->key), iv, U(v->msg), (uint32_t) v->msgSize, tag);
                const bool ok = tag.size() == 4 && memcmp(tag.data(), v->tag, 4) == 0;
                record(r, ok, v->msgSize, "zuc_eia3_128", v->tcId);
        }
        rows.push_back(r);

        Row r2[3];
        r2[0].what = "ref_zuc256_eia3 tag 4";
        r2[1].what = "ref_zuc256_eia3 tag 8";
        r2[2].what = "ref_zuc256_eia3 tag 16";
        for (const mac_test *v = zuc_eia3_256_test_json; v->msg != NULL; v++) {
                const size_t tl = v->tagSize / 8;
                Bytes tag;
                ref_zuc256_eia3(U(v->key), U(v->iv), v->ivSize / 8, U(v->msg),
                                (uint32_t) v->msgSize, tl, tag);
                const bool ok = tag.size() == tl && memcmp(tag.data(), v->tag, tl) == 0;
                record(r2[tl == 4 ? 0 : tl == 8 ? 1 : 2], ok, v->msgSize, "zuc_eia3_256", v->tcId);
        }
        for (auto &x : r2)
                rows.push_back(x);
}

// ---------------------------------------------------------------- SNOW 3G
static void snow3g_set(Row &r, const cipher_test *v, const char *name)
{
        for (; v->key != NULL; v++) {
                const size_t n = (v->msgSize + 7) / 8;
                Bytes ks(n + 1, 0xA5), ct(n + 1);
                ref_snow3g_f8_keystream(U(v->key), U(v->iv), ks.data(), n);
                for (size_t i = 0; i < n; i++)
                        ct[i] = U(v->msg)[i] ^ ks[i];
                const bool ok = eq_bits(ct.data(), U(v->ct), v->msgSize) && ks[n] == 0xA5;
                record(r, ok, v->msgSize, name, v->tcId);
        }
}
static void test_snow3g()
{
        Row r;
        r.what = "ref_snow3g_f8_keystream (UEA2)";
        snow3g_set(r, snow3g_cipher_bit_test_vectors_json, "snow3g_cipher_bit");
        snow3g_set(r, snow3g_cipher_linear_test_vectors_json, "snow3g_cipher_linear");
        snow3g_set(r, snow3g_cipher_test_vectors_json, "snow3g_cipher");
        rows.push_back(r);

        Row r2;
        r2.what = "ref_snow3g_uia2 (UIA2)";
        for (const mac_test *v = snow3g_hash_test_vectors_json; v->msg != NULL; v++) {
                Bytes tag;
                ref_snow3g_uia2(U(v->key), U(v->iv), U(v->msg), (uint32_t) v->msgSize, tag);
                const bool ok = tag.size() == 4 && memcmp(tag.data(), v->tag, 4) == 0;
                record(r2, ok, v->msgSize, "snow3g_hash", v->tcId);
        }
        rows.push_back(r2);
}

// ---------------------------------------------------------------- KASUMI
static void test_kasumi()
{
        Row r;
        r.what = "ref_kasumi_f8_keystream (UEA1)";
        for (const cipher_test *v = kasumi_f8_json; v->msg != NULL; v++) {
                const size_t n = (v->msgSize + 7) / 8;
                Bytes ks(n + 1, 0xA5), ct(n + 1);
                ref_kasumi_f8_keystream(U(v->key), U(v->iv), ks.data(), n);
                for (size_t i = 0; i < n; i++)
                        ct[i] = U(v->msg)[i] ^ ks[i];
                const bool ok = eq_bits(ct.data(), U(v->ct), v->msgSize) && ks[n] == 0xA5;
                record(r, ok, v->msgSize, "kasumi_f8", v->tcId);
        }
        rows.push_back(r);

        Row r2, r3;
        r2.what = "ref_kasumi_f9_user (padded buffer as given)";
        r3.what = "ref_kasumi_f9_user (COUNT|FRESH|MSG|DIR|1|0* built per TS 35.201)";
        for (const mac_test *v = kasumi_f9_json; v->msg != NULL; v++) {
                Bytes tag;
                if (v->ivSize == 0) {
                        // the buffer already is COUNT|FRESH|MESSAGE|DIR|1|0..0, msgSize = its bits
                        ref_kasumi_f9_user(U(v->key), U(v->msg), v->msgSize / 8, tag);
                        const bool ok = tag.size() == 4 && memcmp(tag.data(), v->tag, 4) == 0;
                        record(r2, ok, v->msgSize, "kasumi_f9", v->tcId);
                } else {
                        // iv = DIRECTION(1 byte) | COUNT(4) | FRESH(4), message of msgSize BITS
                        const uint8_t dir = U(v->iv)[0] & 1;
                        const size_t mbits = v->msgSize;
                        Bytes ps(8 + mbits / 8 + 2, 0);
                        memcpy(ps.data(), U(v->iv) + 1, 8);
                        for (size_t i = 0; i < mbits; i++)
                                if ((U(v->msg)[i >> 3] >> (7 - (i & 7))) & 1)
                                        ps[8 + (i >> 3)] |= (uint8_t) (0x80 >> (i & 7));
                        size_t pos = 64 + mbits;
                        if (dir)
                                ps[pos >> 3] |= (uint8_t) (0x80 >> (pos & 7));
                        pos++;
                        ps[pos >> 3] |= (uint8_t) (0x80 >> (pos & 7));
                        pos++;
                        const size_t nbytes = (pos + 7) / 8; // zeros up to 64-bit multiple implied
                        ref_kasumi_f9_user(U(v->key), ps.data(), nbytes, tag);
                        const bool ok = tag.size() == 4 && memcmp(tag.data(), v->tag, 4) == 0;
                        record(r3, ok, v->msgSize, "kasumi_f9(user)", v->tcId);
                }
        }
        rows.push_back(r2);
        rows.push_back(r3);
}

// ---------------------------------------------------------------- table validation
static uint8_t gf_mul(uint8_t a, uint8_t b, unsigned poly)
{
        unsigned r = 0, aa = a;
        while (b) {
                if (b & 1)
                        r ^= aa;
                aa <<= 1;
                if (aa & 0x100)
                        aa ^= poly;
                b >>= 1;
        }
        return (uint8_t) r;
}
static uint8_t gf_pow(uint8_t a, unsigned e, unsigned poly)
{
        uint8_t r = 1;
        while (e--)
                r = gf_mul(r, a, poly);
        return r;
}
static uint8_t gf_inv(uint8_t a, unsigned poly) { return a ? gf_pow(a, 254, poly) : 0; }

static void check(const char *what, bool ok)
{
        Row r;
        r.what = std::string("table: ") + what;
        r.total = 1;
        r.pass = ok ? 1 : 0;
        if (!ok)
                failures++;
        rows.push_back(r);
}

static void test_tables()
{
        // ZUC S0: three-round 4-bit Feistel with the published P1, P2, P3, rotated left by 5
        static const uint8_t P1[16] = { 9, 15, 0, 14, 15, 15, 2, 10, 0, 4, 0, 12, 7, 5, 3, 9 };
        static const uint8_t P2[16] = { 8, 13, 6, 5, 7, 0, 12, 4, 11, 1, 14, 10, 15, 3, 9, 2 };
        static const uint8_t P3[16] = { 2, 6, 10, 6, 0, 13, 10, 15, 3, 3, 13, 5, 0, 9, 12, 13 };
        bool ok = true;
        for (unsigned x = 0; x < 256; x++) {
                uint8_t h = x >> 4, l = x & 15;
                h ^= P1[l];
                l ^= P2[h];
                h ^= P3[l];
                const uint8_t y = (uint8_t) ((h << 4) | l);
                if ((uint8_t) ((y << 5) | (y >> 3)) != ref_zuc_S0[x])
                        ok = false;
        }
        check("ZUC S0 == (Feistel(P1,P2,P3) <<< 5)", ok);

        // ZUC S1 = M * x^-1 + 0x55 over GF(2^8) mod x^8+x^7+x^3+x+1: check GF(2)-linearity of M
        ok = true;
        uint8_t Lmap[256];
        for (unsigned x = 0; x < 256; x++)
                Lmap[gf_inv((uint8_t) x, 0x18B)] = ref_zuc_S1[x] ^ 0x55;
        for (unsigned a = 0; a < 256; a++)
                for (unsigned b = 0; b < 256; b++)
                        if (Lmap[a ^ b] != (Lmap[a] ^ Lmap[b]))
                                ok = false;
        bool perm[256] = { false };
        for (unsigned x = 0; x < 256; x++)
                perm[ref_zuc_S1[x]] = true;
        for (unsigned x = 0; x < 256; x++)
                ok = ok && perm[x];
        check("ZUC S1 == M*inv(x)+0x55 in GF(2^8)/0x18B, bijective", ok);

        // SNOW 3G SR = Rijndael S-box
        ok = true;
        for (unsigned x = 0; x < 256; x++) {
                const uint8_t y = gf_inv((uint8_t) x, 0x11B);
                uint8_t r = 0x63;
                for (unsigned i = 0; i < 5; i++)
                        r ^= (uint8_t) ((y << i) | (y >> ((8 - i) & 7)));
                if (r != ref_snow3g_SR[x])
                        ok = false;
        }
        check("SNOW3G SR == Rijndael S-box (algebraic)", ok);

        // SNOW 3G SQ = Dickson polynomial g49 over GF(2^8) mod x^8+x^6+x^5+x^3+1, plus 0x25
        ok = true;
        static const unsigned E[9] = { 1, 9, 13, 15, 33, 41, 45, 47, 49 };
        for (unsigned x = 0; x < 256; x++) {
                uint8_t v = 0x25;
                for (unsigned e : E)
                        v ^= gf_pow((uint8_t) x, e, 0x169);
                if (v != ref_snow3g_SQ[x])
                        ok = false;
        }
        check("SNOW3G SQ == g49(x)+0x25 in GF(2^8)/0x169", ok);

        // KASUMI S7: bijective, algebraic degree 3 (all 4th order derivatives vanish);
        // spot values from TS 35.202
        ok = true;
        {
                bool seen[128] = { false };
                for (unsigned x = 0; x < 128; x++)
                        seen[ref_kasumi_S7[x]] = true;
                for (unsigned x = 0; x < 128; x++)
                        ok = ok && seen[x];
                // every 4-dimensional affine subspace spanned by unit vectors and a few others
                for (unsigned x = 0; x < 128 && ok; x++)
                        for (unsigned a = 1; a < 128 && ok; a <<= 1)
                                for (unsigned b = a << 1; b < 128 && ok; b <<= 1)
                                        for (unsigned c = b << 1; c < 128 && ok; c <<= 1)
                                                for (unsigned d = c << 1; d < 128; d <<= 1) {
                                                        unsigned acc = 0;
                                                        for (unsigned m = 0; m < 16; m++)
                                                                acc ^= ref_kasumi_S7
                                                                        [x ^ ((m & 1) ? a : 0) ^
                                                                         ((m & 2) ? b : 0) ^
                                                                         ((m & 4) ? c : 0) ^
                                                                         ((m & 8) ? d : 0)];
                                                        if (acc)
                                                                ok = false;
                                                }
                ok = ok && ref_kasumi_S7[0] == 54 && ref_kasumi_S7[1] == 50 &&
                     ref_kasumi_S7[127] == 3;
        }
        check("KASUMI S7 bijective, degree 3, spot values", ok);

        ok = true;
        {
                bool seen[512] = { false };
                for (unsigned x = 0; x < 512; x++)
                        seen[ref_kasumi_S9[x]] = true;
                for (unsigned x = 0; x < 512; x++)
                        ok = ok && seen[x];
                // degree 2: all 3rd order derivatives vanish
                for (unsigned x = 0; x < 512 && ok; x++)
                        for (unsigned a = 1; a < 512 && ok; a <<= 1)
                                for (unsigned b = a << 1; b < 512 && ok; b <<= 1)
                                        for (unsigned c = b << 1; c < 512; c <<= 1) {
                                                unsigned acc = 0;
                                                for (unsigned m = 0; m < 8; m++)
                                                        acc ^= ref_kasumi_S9[x ^ ((m & 1) ? a : 0) ^
                                                                             ((m & 2) ? b : 0) ^
                                                                             ((m & 4) ? c : 0)];
                                                if (acc)
                                                        ok = false;
                                        }
                ok = ok && ref_kasumi_S9[0] == 167 && ref_kasumi_S9[1] == 239 &&
                     ref_kasumi_S9[511] == 461;
        }
        check("KASUMI S9 bijective, degree 2, spot values", ok);
}

// ---------------------------------------------------------------- zero lengths
static void test_zero()
{
        const uint8_t key[32] = { 1, 2, 3 }, iv[25] = { 4, 5, 6 };
        uint8_t dummy[4] = { 0xA5, 0xA5, 0xA5, 0xA5 };
        Bytes t;
        bool ok = true;
        ok &= ref_zuc_eea3(key, iv, dummy, dummy, 0);
        ok &= ref_zuc256_eea3(key, iv, 25, dummy, dummy, 0);
        ok &= ref_zuc256_eea3(key, iv, 23, dummy, dummy, 0);
        ok &= ref_snow3g_f8_keystream(key, iv, dummy, 0);
        ok &= ref_kasumi_f8_keystream(key, iv, dummy, 0);
        ok &= dummy[0] == 0xA5;
        ok &= ref_zuc_eia3(key, iv, dummy, 0, t) && t.size() == 4;
        for (size_t tl : { 4, 8, 16 })
                ok &= ref_zuc256_eia3(key, iv, 25, dummy, 0, tl, t) && t.size() == tl;
        ok &= ref_snow3g_uia2(key, iv, dummy, 0, t) && t.size() == 4;
        ok &= ref_kasumi_f9_user(key, dummy, 0, t) && t.size() == 4;
        // also NULL data pointers with zero length
        ok &= ref_zuc_eia3(key, iv, NULL, 0, t) && ref_kasumi_f9_user(key, NULL, 0, t) &&
              ref_snow3g_uia2(key, iv, NULL, 0, t) && ref_zuc_eea3(key, iv, NULL, NULL, 0);
        Row r;
        r.what = "zero-length inputs handled (no crash, tags produced)";
        r.total = 1;
        r.pass = ok;
        if (!ok)
                failures++;
        rows.push_back(r);

        // 128-EIA3 test set 1 of the spec is a 1-bit message; the empty message MAC is
        // z[0] ^ z[1] (T = z_0 window, L = 2): check that identity through EEA3 keystream
        uint8_t iv16[16] = { 9, 8, 7 }, zero[8] = { 0 }, ksb[8];
        ref_zuc_eea3(key, iv16, zero, ksb, 8);
        ref_zuc_eia3(key, iv16, NULL, 0, t);
        Row r2;
        r2.what = "128-EIA3 of empty message == z0 ^ z1";
        r2.total = 1;
        bool ok2 = true;
        for (int i = 0; i < 4; i++)
                ok2 &= t[i] == (ksb[i] ^ ksb[4 + i]);
        r2.pass = ok2;
        if (!ok2)
                failures++;
        rows.push_back(r2);
}

int main()
{
        test_tables();
        test_zuc_eea3();
        test_zuc_eia3();
        test_snow3g();
        test_kasumi();
        test_zero();

        printf("\n%-72s %5s %5s %8s %8s  %s\n", "check", "total", "pass", "non-x8", ">64B", "result");
        for (const Row &r : rows)
                printf("%-72s %5d %5d %8d %8d  %s\n", r.what.c_str(), r.total, r.pass, r.nonbyte,
                       r.over64, r.pass == r.total && r.total > 0 ? "PASS" : "FAIL");
        printf("\n%s\n", failures ? "SELFTEST FAILED" : "ALL PASS");
        return failures ? 1 : 0;
}

#define OPENSSL_SUPPRESS_DEPRECATED
#include "prims.h"
#include <openssl/aes.h>
#include <openssl/des.h>
#include <openssl/evp.h>
#include <openssl/hmac.h>
#include <stdlib.h>
#include <stdio.h>

// ---------------------------------------------------------------- block ciphers
namespace {
struct Aes : BlockCipher {
        AES_KEY ek, dk;
        size_t bs() const override { return 16; }
        void enc(const uint8_t *in, uint8_t *out) const override { AES_encrypt(in, out, &ek); }
        void dec(const uint8_t *in, uint8_t *out) const override { AES_decrypt(in, out, &dk); }
};
struct Des : BlockCipher {
        DES_key_schedule ks;
        size_t bs() const override { return 8; }
        void enc(const uint8_t *in, uint8_t *out) const override
        {
                DES_ecb_encrypt((const_DES_cblock *) in, (DES_cblock *) out, (DES_key_schedule *) &ks, DES_ENCRYPT);
        }
        void dec(const uint8_t *in, uint8_t *out) const override
        {
                DES_ecb_encrypt((const_DES_cblock *) in, (DES_cblock *) out, (DES_key_schedule *) &ks, DES_DECRYPT);
        }
};
struct Des3 : BlockCipher {
        DES_key_schedule k1, k2, k3;
        size_t bs() const override { return 8; }
        void enc(const uint8_t *in, uint8_t *out) const override
        {
                DES_ecb3_encrypt((const_DES_cblock *) in, (DES_cblock *) out, (DES_key_schedule *) &k1, (DES_key_schedule *) &k2,
                                 (DES_key_schedule *) &k3, DES_ENCRYPT);
        }
        void dec(const uint8_t *in, uint8_t *out) const override
        {
                DES_ecb3_encrypt((const_DES_cblock *) in, (DES_cblock *) out, (DES_key_schedule *) &k1, (DES_key_schedule *) &k2,
                                 (DES_key_schedule *) &k3, DES_DECRYPT);
        }
};
struct Sm4 : BlockCipher {
        EVP_CIPHER_CTX *e, *d;
        Sm4() : e(nullptr), d(nullptr) {}
        ~Sm4() override
        {
                EVP_CIPHER_CTX_free(e);
                EVP_CIPHER_CTX_free(d);
        }
        size_t bs() const override { return 16; }
        void enc(const uint8_t *in, uint8_t *out) const override
        {
                int n = 0;
                uint8_t tmp[32];
                EVP_EncryptUpdate(e, tmp, &n, in, 16);
                memcpy(out, tmp, 16);
        }
        void dec(const uint8_t *in, uint8_t *out) const override
        {
                int n = 0;
                uint8_t tmp[32];
                EVP_DecryptUpdate(d, tmp, &n, in, 16);
                memcpy(out, tmp, 16);
        }
};
} // namespace

BlockCipher *
new_aes(const uint8_t *key, size_t key_len)
{
        Aes *a = new Aes;
        AES_set_encrypt_key(key, (int) key_len * 8, &a->ek);
        AES_set_decrypt_key(key, (int) key_len * 8, &a->dk);
        return a;
}
BlockCipher *
new_des(const uint8_t *key)
{
        Des *d = new Des;
        DES_set_key_unchecked((const_DES_cblock *) key, &d->ks);
        return d;
}
BlockCipher *
new_des3(const uint8_t *key)
{
        Des3 *d = new Des3;
        DES_set_key_unchecked((const_DES_cblock *) key, &d->k1);
        DES_set_key_unchecked((const_DES_cblock *) (key + 8), &d->k2);
        DES_set_key_unchecked((const_DES_cblock *) (key + 16), &d->k3);
        return d;
}
BlockCipher *
new_sm4(const uint8_t *key)
{
        const EVP_CIPHER *c = EVP_sm4_ecb();
        if (!c)
                return nullptr;
        Sm4 *s = new Sm4;
        s->e = EVP_CIPHER_CTX_new();
        s->d = EVP_CIPHER_CTX_new();
        if (EVP_EncryptInit_ex(s->e, c, nullptr, key, nullptr) != 1 || EVP_DecryptInit_ex(s->d, c, nullptr, key, nullptr) != 1) {
                delete s;
                return nullptr;
        }
        EVP_CIPHER_CTX_set_padding(s->e, 0);
        EVP_CIPHER_CTX_set_padding(s->d, 0);
        return s;
}

// ---------------------------------------------------------------- modes
void
ref_ecb(const BlockCipher &c, bool enc, const uint8_t *in, uint8_t *out, size_t len)
{
        const size_t b = c.bs();
        uint8_t t[16];
        for (size_t i = 0; i + b <= len; i += b) {
                if (enc)
                        c.enc(in + i, t);
                else
                        c.dec(in + i, t);
                memcpy(out + i, t, b);
        }
}

void
ref_cbc(const BlockCipher &c, bool enc, const uint8_t *iv, const uint8_t *in, uint8_t *out, size_t len, uint8_t *last_ct)
{
        const size_t b = c.bs();
        uint8_t prev[16], t[16], ct[16];
        memcpy(prev, iv, b);
        for (size_t i = 0; i + b <= len; i += b) {
                if (enc) {
                        for (size_t k = 0; k < b; k++)
                                t[k] = in[i + k] ^ prev[k];
                        c.enc(t, prev);
                        memcpy(out + i, prev, b);
                } else {
                        memcpy(ct, in + i, b);
                        c.dec(ct, t);
                        for (size_t k = 0; k < b; k++)
                                out[i + k] = t[k] ^ prev[k];
                        memcpy(prev, ct, b);
                }
        }
        if (last_ct)
                memcpy(last_ct, prev, b);
}

void
ref_cfb128(const BlockCipher &c, bool enc, const uint8_t *iv, const uint8_t *in, uint8_t *out, size_t len)
{
        const size_t b = c.bs();
        uint8_t fb[16], ks[16], ct[16];
        memcpy(fb, iv, b);
        for (size_t i = 0; i < len; i += b) {
                size_t n = len - i < b ? len - i : b;
                c.enc(fb, ks);
                if (enc) {
                        for (size_t k = 0; k < n; k++)
                                out[i + k] = in[i + k] ^ ks[k];
                        memcpy(fb, out + i, n);
                } else {
                        memcpy(ct, in + i, n);
                        for (size_t k = 0; k < n; k++)
                                out[i + k] = ct[k] ^ ks[k];
                        memcpy(fb, ct, n);
                }
        }
}

void
ref_ctr32(const BlockCipher &c, const uint8_t ctr0[16], const uint8_t *in, uint8_t *out, size_t len)
{
        uint8_t ctr[16], ks[16];
        memcpy(ctr, ctr0, 16);
        for (size_t i = 0; i < len; i += 16) {
                size_t n = len - i < 16 ? len - i : 16;
                c.enc(ctr, ks);
                for (size_t k = 0; k < n; k++)
                        out[i + k] = in[i + k] ^ ks[k];
                // increment the last 32 bits, big endian, modulo 2^32
                for (int k = 15; k >= 12; k--)
                        if (++ctr[k] != 0)
                                break;
        }
}

void
ref_ctr_n(const BlockCipher &c, const uint8_t ctr0[16], int ctr_bytes, const uint8_t *in, uint8_t *out, size_t len)
{
        uint8_t ctr[16], ks[16];
        memcpy(ctr, ctr0, 16);
        for (size_t i = 0; i < len; i += 16) {
                size_t n = len - i < 16 ? len - i : 16;
                c.enc(ctr, ks);
                for (size_t k = 0; k < n; k++)
                        out[i + k] = in[i + k] ^ ks[k];
                for (int k = 15; k >= 16 - ctr_bytes; k--)
                        if (++ctr[k] != 0)
                                break;
        }
}

void
ref_docsis(const BlockCipher &c, bool enc, const uint8_t *iv, const uint8_t *in, uint8_t *out, size_t len)
{
        const size_t b = c.bs();
        const size_t full = len / b * b, rem = len - full;
        uint8_t last[16], ks[16];
        // the last ciphertext block (or the IV for a short frame) feeds the residual termination
        if (enc) {
                ref_cbc(c, true, iv, in, out, full, last);
        } else {
                if (full)
                        memcpy(last, in + full - b, b);
                else
                        memcpy(last, iv, b);
                // decrypt after saving 'last' (in and out may alias)
                uint8_t tail[16];
                memcpy(tail, in + full, rem);
                ref_cbc(c, false, iv, in, out, full, nullptr);
                c.enc(last, ks);
                for (size_t k = 0; k < rem; k++)
                        out[full + k] = tail[k] ^ ks[k];
                return;
        }
        if (rem) {
                if (!full)
                        memcpy(last, iv, b);
                c.enc(last, ks);
                for (size_t k = 0; k < rem; k++)
                        out[full + k] = in[full + k] ^ ks[k];
        }
}

// ---------------------------------------------------------------- hashes
static const EVP_MD *
md_of(HashId h)
{
        switch (h) {
        case H_MD5: return EVP_md5();
        case H_SHA1: return EVP_sha1();
        case H_SHA224: return EVP_sha224();
        case H_SHA256: return EVP_sha256();
        case H_SHA384: return EVP_sha384();
        case H_SHA512: return EVP_sha512();
        case H_SM3: return EVP_sm3();
        }
        return nullptr;
}
size_t hash_len(HashId h) { return (size_t) EVP_MD_get_size(md_of(h)); }
size_t hash_block(HashId h) { return (size_t) EVP_MD_get_block_size(md_of(h)); }

Bytes
ref_hash(HashId h, const uint8_t *msg, size_t len)
{
        Bytes out(EVP_MAX_MD_SIZE);
        unsigned n = 0;
        uint8_t dummy = 0;
        EVP_Digest(msg ? msg : &dummy, len, out.data(), &n, md_of(h), nullptr);
        out.resize(n);
        return out;
}

// HMAC written from RFC 2104 on top of the plain hash
Bytes
ref_hmac(HashId h, const uint8_t *key, size_t key_len, const uint8_t *msg, size_t len)
{
        const size_t B = hash_block(h);
        Bytes k(B, 0);
        if (key_len > B) {
                Bytes kh = ref_hash(h, key, key_len);
                memcpy(k.data(), kh.data(), kh.size());
        } else
                memcpy(k.data(), key, key_len);
        Bytes inner(B + len), outer(B);
        for (size_t i = 0; i < B; i++) {
                inner[i] = k[i] ^ 0x36;
                outer[i] = k[i] ^ 0x5c;
        }
        if (len)
                memcpy(inner.data() + B, msg, len);
        Bytes ih = ref_hash(h, inner.data(), inner.size());
        outer.insert(outer.end(), ih.begin(), ih.end());
        return ref_hash(h, outer.data(), outer.size());
}

// ---------------------------------------------------------------- CMAC / XCBC
static void
dbl(uint8_t *b, size_t n)
{
        // multiply by x in GF(2^128) (Rb = 0x87) or GF(2^64) (Rb = 0x1b)
        uint8_t carry = b[0] >> 7;
        for (size_t i = 0; i + 1 < n; i++)
                b[i] = (uint8_t) ((b[i] << 1) | (b[i + 1] >> 7));
        b[n - 1] = (uint8_t) (b[n - 1] << 1);
        if (carry)
                b[n - 1] ^= (n == 16 ? 0x87 : 0x1b);
}

Bytes
ref_cmac(const BlockCipher &c, const uint8_t *msg, uint64_t bit_len)
{
        uint8_t L[16] = { 0 }, K1[16], K2[16];
        c.enc(L, L);
        memcpy(K1, L, 16);
        dbl(K1, 16);
        memcpy(K2, K1, 16);
        dbl(K2, 16);
        const uint64_t len = (bit_len + 7) / 8;
        const unsigned rbits = (unsigned) (bit_len & 7);
        uint64_t n = (len + 15) / 16;
        bool complete = len != 0 && (len % 16 == 0) && rbits == 0;
        if (n == 0)
                n = 1;
        uint8_t x[16] = { 0 }, y[16];
        for (uint64_t i = 0; i + 1 < n; i++) {
                for (int k = 0; k < 16; k++)
                        y[k] = x[k] ^ msg[i * 16 + k];
                c.enc(y, x);
        }
        uint8_t last[16] = { 0 };
        uint64_t off = (n - 1) * 16;
        uint64_t r = len - off; // bytes in last block (0..16)
        if (len)
                memcpy(last, msg + off, (size_t) r);
        if (complete) {
                for (int k = 0; k < 16; k++)
                        last[k] ^= K1[k];
        } else {
                if (rbits) {
                        // keep the top rbits of the last byte, then a 1 bit, then zeros
                        uint8_t m = (uint8_t) (0xFF << (8 - rbits));
                        last[r - 1] = (uint8_t) ((last[r - 1] & m) | (0x80 >> rbits));
                } else
                        last[r] = 0x80;
                for (int k = 0; k < 16; k++)
                        last[k] ^= K2[k];
        }
        for (int k = 0; k < 16; k++)
                y[k] = x[k] ^ last[k];
        c.enc(y, x);
        return Bytes(x, x + 16);
}

Bytes
ref_xcbc(const uint8_t key[16], const uint8_t *msg, size_t len)
{
        BlockCipher *k = new_aes(key, 16);
        uint8_t c1[16], c2[16], c3[16], K1[16], K2[16], K3[16];
        memset(c1, 1, 16);
        memset(c2, 2, 16);
        memset(c3, 3, 16);
        k->enc(c1, K1);
        k->enc(c2, K2);
        k->enc(c3, K3);
        delete k;
        BlockCipher *a = new_aes(K1, 16);
        uint8_t e[16] = { 0 }, y[16];
        size_t n = (len + 15) / 16;
        if (n == 0)
                n = 1;
        for (size_t i = 0; i + 1 < n; i++) {
                for (int j = 0; j < 16; j++)
                        y[j] = e[j] ^ msg[i * 16 + j];
                a->enc(y, e);
        }
        size_t off = (n - 1) * 16, r = len - off;
        uint8_t last[16] = { 0 };
        if (len)
                memcpy(last, msg + off, r);
        if (len && r == 16) {
                for (int j = 0; j < 16; j++)
                        y[j] = last[j] ^ e[j] ^ K2[j];
        } else {
                last[r] = 0x80;
                for (int j = 0; j < 16; j++)
                        y[j] = last[j] ^ e[j] ^ K3[j];
        }
        a->enc(y, e);
        delete a;
        return Bytes(e, e + 16);
}

// ---------------------------------------------------------------- GHASH / GCM
void
gf128_mul(uint8_t x[16], const uint8_t y[16])
{
        uint8_t z[16] = { 0 }, v[16];
        memcpy(v, y, 16);
        for (int i = 0; i < 128; i++) {
                if (x[i / 8] & (0x80 >> (i % 8)))
                        for (int k = 0; k < 16; k++)
                                z[k] ^= v[k];
                uint8_t lsb = v[15] & 1;
                for (int k = 15; k > 0; k--)
                        v[k] = (uint8_t) ((v[k] >> 1) | (v[k - 1] << 7));
                v[0] >>= 1;
                if (lsb)
                        v[0] ^= 0xE1;
        }
        memcpy(x, z, 16);
}

Bytes
ref_ghash(const uint8_t h[16], const uint8_t init[16], const uint8_t *msg, size_t len)
{
        uint8_t y[16];
        memcpy(y, init, 16);
        for (size_t i = 0; i < len; i += 16) {
                size_t n = len - i < 16 ? len - i : 16;
                for (size_t k = 0; k < n; k++)
                        y[k] ^= msg[i + k];
                gf128_mul(y, h);
        }
        return Bytes(y, y + 16);
}

static void
put_be64(uint8_t *p, uint64_t v)
{
        for (int i = 7; i >= 0; i--) {
                p[i] = (uint8_t) v;
                v >>= 8;
        }
}

static void
gcm_j0(const uint8_t H[16], const uint8_t *iv, size_t iv_len, uint8_t j0[16])
{
        if (iv_len == 12) {
                memcpy(j0, iv, 12);
                j0[12] = j0[13] = j0[14] = 0;
                j0[15] = 1;
                return;
        }
        uint8_t z[16] = { 0 };
        Bytes y = ref_ghash(H, z, iv, iv_len);
        uint8_t lb[16] = { 0 };
        put_be64(lb + 8, (uint64_t) iv_len * 8);
        for (int k = 0; k < 16; k++)
                y[k] ^= lb[k];
        gf128_mul(y.data(), H);
        memcpy(j0, y.data(), 16);
}

static Bytes
gcm_tag(const BlockCipher &c, const uint8_t H[16], const uint8_t j0[16], const uint8_t *aad, size_t aad_len, const uint8_t *ct,
        size_t len)
{
        uint8_t z[16] = { 0 };
        Bytes s = ref_ghash(H, z, aad, aad_len);
        s = ref_ghash(H, s.data(), ct, len);
        uint8_t lb[16];
        put_be64(lb, (uint64_t) aad_len * 8);
        put_be64(lb + 8, (uint64_t) len * 8);
        for (int k = 0; k < 16; k++)
                s[k] ^= lb[k];
        gf128_mul(s.data(), H);
        uint8_t e[16];
        c.enc(j0, e);
        for (int k = 0; k < 16; k++)
                s[k] ^= e[k];
        return s;
}

AeadOut
ref_gcm(const BlockCipher &c, bool enc, const uint8_t *iv, size_t iv_len, const uint8_t *aad, size_t aad_len, const uint8_t *in,
        size_t len)
{
        uint8_t H[16] = { 0 }, j0[16], ctr[16];
        c.enc(H, H);
        gcm_j0(H, iv, iv_len, j0);
        memcpy(ctr, j0, 16);
        for (int k = 15; k >= 12; k--)
                if (++ctr[k] != 0)
                        break;
        AeadOut o;
        o.out.resize(len);
        if (len)
                ref_ctr32(c, ctr, in, o.out.data(), len);
        o.tag = gcm_tag(c, H, j0, aad, aad_len, enc ? o.out.data() : in, len);
        return o;
}

Bytes
ref_gmac(const BlockCipher &c, const uint8_t *iv, size_t iv_len, const uint8_t *msg, size_t len)
{
        uint8_t H[16] = { 0 }, j0[16];
        c.enc(H, H);
        gcm_j0(H, iv, iv_len, j0);
        return gcm_tag(c, H, j0, msg, len, nullptr, 0);
}

// ---------------------------------------------------------------- CCM (RFC 3610)
AeadOut
ref_ccm(const BlockCipher &c, bool enc, const uint8_t *nonce, size_t nonce_len, const uint8_t *aad, size_t aad_len, const uint8_t *in,
        size_t len, size_t tag_len)
{
        const size_t L = 15 - nonce_len;
        AeadOut o;
        o.out.resize(len);
        // CTR: A_i = flags(L-1) || nonce || counter_i
        uint8_t a[16] = { 0 }, s0[16], ks[16];
        a[0] = (uint8_t) (L - 1);
        memcpy(a + 1, nonce, nonce_len);
        auto set_ctr = [&](uint64_t i) {
                for (size_t k = 0; k < L; k++)
                        a[15 - k] = (uint8_t) (i >> (8 * k));
        };
        set_ctr(0);
        c.enc(a, s0);
        const uint8_t *pt = in;
        Bytes ptbuf;
        if (!enc) {
                // decrypt first to get the plaintext that is authenticated
                ptbuf.resize(len);
                for (size_t i = 0; i < len; i += 16) {
                        set_ctr(i / 16 + 1);
                        c.enc(a, ks);
                        size_t n = len - i < 16 ? len - i : 16;
                        for (size_t k = 0; k < n; k++)
                                ptbuf[i + k] = in[i + k] ^ ks[k];
                }
                o.out = ptbuf;
                pt = ptbuf.data();
        }
        // CBC-MAC: B_0
        uint8_t x[16], b[16] = { 0 };
        b[0] = (uint8_t) ((aad_len ? 0x40 : 0) | (((tag_len - 2) / 2) << 3) | (L - 1));
        memcpy(b + 1, nonce, nonce_len);
        for (size_t k = 0; k < L; k++)
                b[15 - k] = (uint8_t) ((uint64_t) len >> (8 * k));
        c.enc(b, x);
        if (aad_len) {
                Bytes ab;
                ab.push_back((uint8_t) (aad_len >> 8));
                ab.push_back((uint8_t) aad_len);
                ab.insert(ab.end(), aad, aad + aad_len);
                while (ab.size() % 16)
                        ab.push_back(0);
                for (size_t i = 0; i < ab.size(); i += 16) {
                        for (int k = 0; k < 16; k++)
                                x[k] ^= ab[i + k];
                        c.enc(x, x);
                }
        }
        for (size_t i = 0; i < len; i += 16) {
                size_t n = len - i < 16 ? len - i : 16;
                for (size_t k = 0; k < n; k++)
                        x[k] ^= pt[i + k];
                c.enc(x, x);
        }
        o.tag.resize(tag_len);
        for (size_t k = 0; k < tag_len; k++)
                o.tag[k] = x[k] ^ s0[k];
        if (enc)
                for (size_t i = 0; i < len; i += 16) {
                        set_ctr(i / 16 + 1);
                        c.enc(a, ks);
                        size_t n = len - i < 16 ? len - i : 16;
                        for (size_t k = 0; k < n; k++)
                                o.out[i + k] = in[i + k] ^ ks[k];
                }
        return o;
}

// ---------------------------------------------------------------- ChaCha20 / Poly1305 (RFC 8439)
static inline uint32_t rotl32(uint32_t v, int n) { return (v << n) | (v >> (32 - n)); }
static inline uint32_t
le32(const uint8_t *p)
{
        return (uint32_t) p[0] | ((uint32_t) p[1] << 8) | ((uint32_t) p[2] << 16) | ((uint32_t) p[3] << 24);
}
#define QR(a, b, c, d)                                                                                                 \
        a += b;                                                                                                        \
        d ^= a;                                                                                                        \
        d = rotl32(d, 16);                                                                                             \
        c += d;                                                                                                        \
        b ^= c;                                                                                                        \
        b = rotl32(b, 12);                                                                                             \
        a += b;                                                                                                        \
        d ^= a;                                                                                                        \
        d = rotl32(d, 8);                                                                                              \
        c += d;                                                                                                        \
        b ^= c;                                                                                                        \
        b = rotl32(b, 7);

static void
chacha_block(const uint8_t key[32], const uint8_t nonce[12], uint32_t counter, uint8_t out[64])
{
        uint32_t s[16], x[16];
        s[0] = 0x61707865;
        s[1] = 0x3320646e;
        s[2] = 0x79622d32;
        s[3] = 0x6b206574;
        for (int i = 0; i < 8; i++)
                s[4 + i] = le32(key + 4 * i);
        s[12] = counter;
        for (int i = 0; i < 3; i++)
                s[13 + i] = le32(nonce + 4 * i);
        memcpy(x, s, sizeof x);
        for (int r = 0; r < 10; r++) {
                QR(x[0], x[4], x[8], x[12]) QR(x[1], x[5], x[9], x[13]) QR(x[2], x[6], x[10], x[14]) QR(x[3], x[7], x[11], x[15])
                QR(x[0], x[5], x[10], x[15]) QR(x[1], x[6], x[11], x[12]) QR(x[2], x[7], x[8], x[13]) QR(x[3], x[4], x[9], x[14])
        }
        for (int i = 0; i < 16; i++) {
                uint32_t v = x[i] + s[i];
                out[4 * i] = (uint8_t) v;
                out[4 * i + 1] = (uint8_t) (v >> 8);
                out[4 * i + 2] = (uint8_t) (v >> 16);
                out[4 * i + 3] = (uint8_t) (v >> 24);
        }
}

void
ref_chacha20(const uint8_t key[32], const uint8_t nonce[12], uint32_t counter, const uint8_t *in, uint8_t *out, size_t len)
{
        uint8_t ks[64];
        for (size_t i = 0; i < len; i += 64) {
                chacha_block(key, nonce, counter++, ks);
                size_t n = len - i < 64 ? len - i : 64;
                for (size_t k = 0; k < n; k++)
                        out[i + k] = in[i + k] ^ ks[k];
        }
}

Bytes
ref_poly1305(const uint8_t key[32], const uint8_t *msg, size_t len)
{
        // arithmetic mod 2^130-5 with 26-bit limbs would be faster; clarity first: use unsigned __int128 limbs of 44/44/42
        typedef unsigned __int128 u128;
        uint64_t t0 = 0, t1 = 0;
        memcpy(&t0, key, 8);
        memcpy(&t1, key + 8, 8);
        uint64_t r0 = t0 & 0xffc0fffffff, r1 = ((t0 >> 44) | (t1 << 20)) & 0xfffffc0ffff, r2 = (t1 >> 24) & 0x00ffffffc0f;
        uint64_t s1 = r1 * 20, s2 = r2 * 20; // 5*4: limbs are 44,44,42 so wrap factor is 5<<2
        uint64_t h0 = 0, h1 = 0, h2 = 0;
        for (size_t i = 0; i < len; i += 16) {
                uint8_t blk[17] = { 0 };
                size_t n = len - i < 16 ? len - i : 16;
                memcpy(blk, msg + i, n);
                blk[n] = 1;
                uint64_t m0, m1;
                memcpy(&m0, blk, 8);
                memcpy(&m1, blk + 8, 8);
                uint64_t hibit = (uint64_t) blk[16];
                h0 += m0 & 0xfffffffffff;
                h1 += ((m0 >> 44) | (m1 << 20)) & 0xfffffffffff;
                h2 += ((m1 >> 24) & 0x3ffffffffff) | (hibit << 40);
                u128 d0 = (u128) h0 * r0 + (u128) h1 * s2 + (u128) h2 * s1;
                u128 d1 = (u128) h0 * r1 + (u128) h1 * r0 + (u128) h2 * s2;
                u128 d2 = (u128) h0 * r2 + (u128) h1 * r1 + (u128) h2 * r0;
                uint64_t c = (uint64_t) (d0 >> 44);
                h0 = (uint64_t) d0 & 0xfffffffffff;
                d1 += c;
                c = (uint64_t) (d1 >> 44);
                h1 = (uint64_t) d1 & 0xfffffffffff;
                d2 += c;
                c = (uint64_t) (d2 >> 42);
                h2 = (uint64_t) d2 & 0x3ffffffffff;
                h0 += c * 5;
                c = h0 >> 44;
                h0 &= 0xfffffffffff;
                h1 += c;
        }
        // full carry and reduce
        uint64_t c = h1 >> 44;
        h1 &= 0xfffffffffff;
        h2 += c;
        c = h2 >> 42;
        h2 &= 0x3ffffffffff;
        h0 += c * 5;
        c = h0 >> 44;
        h0 &= 0xfffffffffff;
        h1 += c;
        c = h1 >> 44;
        h1 &= 0xfffffffffff;
        h2 += c;
        c = h2 >> 42;
        h2 &= 0x3ffffffffff;
        h0 += c * 5;
        c = h0 >> 44;
        h0 &= 0xfffffffffff;
        h1 += c;
        // compute h - p
        uint64_t g0 = h0 + 5;
        c = g0 >> 44;
        g0 &= 0xfffffffffff;
        uint64_t g1 = h1 + c;
        c = g1 >> 44;
        g1 &= 0xfffffffffff;
        uint64_t g2 = h2 + c - (1ull << 42);
        uint64_t mask = (g2 >> 63) - 1; // all ones if h >= p
        h0 = (h0 & ~mask) | (g0 & mask);
        h1 = (h1 & ~mask) | (g1 & mask);
        h2 = (h2 & ~mask) | (g2 & mask);
        // h = h % 2^128 + s
        uint64_t pad0, pad1;
        memcpy(&pad0, key + 16, 8);
        memcpy(&pad1, key + 24, 8);
        u128 lo = ((u128) h0) | ((u128) h1 << 44) | ((u128) h2 << 88);
        u128 pad = ((u128) pad1 << 64) | pad0;
        lo += pad;
        Bytes out(16);
        for (int i = 0; i < 16; i++)
                out[i] = (uint8_t) (lo >> (8 * i));
        return out;
}

AeadOut
ref_chacha20_poly1305(bool enc, const uint8_t key[32], const uint8_t nonce[12], const uint8_t *aad, size_t aad_len, const uint8_t *in,
                      size_t len)
{
        uint8_t otk[64];
        chacha_block(key, nonce, 0, otk);
        AeadOut o;
        o.out.resize(len);
        if (len)
                ref_chacha20(key, nonce, 1, in, o.out.data(), len);
        const uint8_t *ct = enc ? o.out.data() : in;
        Bytes mac;
        mac.insert(mac.end(), aad, aad + aad_len);
        while (mac.size() % 16)
                mac.push_back(0);
        mac.insert(mac.end(), ct, ct + len);
        while (mac.size() % 16)
                mac.push_back(0);
        for (int i = 0; i < 8; i++)
                mac.push_back((uint8_t) ((uint64_t) aad_len >> (8 * i)));
        for (int i = 0; i < 8; i++)
                mac.push_back((uint8_t) ((uint64_t) len >> (8 * i)));
        o.tag = ref_poly1305(otk, mac.data(), mac.size());
        return o;
}

// ---------------------------------------------------------------- CRC (bit-serial)
static uint32_t
reflect(uint32_t v, int w)
{
        uint32_t r = 0;
        for (int i = 0; i < w; i++)
                if (v & (1u << i))
                        r |= 1u << (w - 1 - i);
        return r;
}

uint32_t
ref_crc(const CrcParams &p, const uint8_t *msg, size_t len)
{
        const uint32_t top = 1u << (p.width - 1);
        const uint32_t mask = p.width == 32 ? 0xFFFFFFFFu : ((1u << p.width) - 1);
        uint32_t crc = p.init & mask;
        for (size_t i = 0; i < len; i++) {
                uint8_t b = p.refin ? (uint8_t) reflect(msg[i], 8) : msg[i];
                for (int k = 7; k >= 0; k--) {
                        uint32_t bit = (b >> k) & 1;
                        uint32_t msb = (crc & top) ? 1 : 0;
                        crc = (crc << 1) & mask;
                        if (msb ^ bit)
                                crc ^= p.poly;
                }
        }
        if (p.refout)
                crc = reflect(crc, p.width);
        return (crc ^ p.xorout) & mask;
}

// ---------------------------------------------------------------- key schedules (C11)
#include <openssl/sha.h>
#include <openssl/md5.h>
static uint8_t
gmul(uint8_t a, uint8_t b)
{
        uint8_t p = 0;
        for (int i = 0; i < 8; i++) {
                if (b & 1)
                        p ^= a;
                uint8_t hi = a & 0x80;
                a <<= 1;
                if (hi)
                        a ^= 0x1b;
                b >>= 1;
        }
        return p;
}
static uint8_t
aes_sbox(uint8_t x)
{
        // multiplicative inverse in GF(2^8) followed by the affine transformation (FIPS-197 5.1.1)
        uint8_t inv = 0;
        if (x)
                for (int c = 1; c < 256; c++)
                        if (gmul(x, (uint8_t) c) == 1) {
                                inv = (uint8_t) c;
                                break;
                        }
        uint8_t r = 0;
        for (int i = 0; i < 8; i++) {
                uint8_t bit = ((inv >> i) ^ (inv >> ((i + 4) & 7)) ^ (inv >> ((i + 5) & 7)) ^ (inv >> ((i + 6) & 7)) ^
                               (inv >> ((i + 7) & 7)) ^ (0x63 >> i)) & 1;
                r |= (uint8_t) (bit << i);
        }
        return r;
}
void
ref_aes_keyexp(const uint8_t *key, size_t key_len, uint8_t *enc, uint8_t *dec)
{
        static uint8_t sb[256];
        static bool init = false;
        if (!init) {
                for (int i = 0; i < 256; i++)
                        sb[i] = aes_sbox((uint8_t) i);
                init = true;
        }
        const int Nk = (int) key_len / 4, Nr = Nk + 6, total = 4 * (Nr + 1);
        uint8_t w[60][4];
        for (int i = 0; i < Nk; i++)
                memcpy(w[i], key + 4 * i, 4);
        uint8_t rcon = 1;
        for (int i = Nk; i < total; i++) {
                uint8_t t[4];
                memcpy(t, w[i - 1], 4);
                if (i % Nk == 0) {
                        uint8_t x = t[0];
                        t[0] = (uint8_t) (sb[t[1]] ^ rcon);
                        t[1] = sb[t[2]];
                        t[2] = sb[t[3]];
                        t[3] = sb[x];
                        rcon = gmul(rcon, 2);
                } else if (Nk > 6 && i % Nk == 4) {
                        for (int k = 0; k < 4; k++)
                                t[k] = sb[t[k]];
                }
                for (int k = 0; k < 4; k++)
                        w[i][k] = w[i - Nk][k] ^ t[k];
        }
        memcpy(enc, w, (size_t) total * 4);
        if (!dec)
                return;
        for (int r = 0; r <= Nr; r++) {
                const uint8_t *src = enc + 16 * (Nr - r);
                uint8_t *d = dec + 16 * r;
                if (r == 0 || r == Nr) {
                        memcpy(d, src, 16);
                        continue;
                }
                for (int c = 0; c < 4; c++) {
                        const uint8_t *a = src + 4 * c;
                        d[4 * c + 0] = gmul(a[0], 14) ^ gmul(a[1], 11) ^ gmul(a[2], 13) ^ gmul(a[3], 9);
                        d[4 * c + 1] = gmul(a[0], 9) ^ gmul(a[1], 14) ^ gmul(a[2], 11) ^ gmul(a[3], 13);
                        d[4 * c + 2] = gmul(a[0], 13) ^ gmul(a[1], 9) ^ gmul(a[2], 14) ^ gmul(a[3], 11);
                        d[4 * c + 3] = gmul(a[0], 11) ^ gmul(a[1], 13) ^ gmul(a[2], 9) ^ gmul(a[3], 14);
                }
        }
}
void
ref_cmac_subkeys(const BlockCipher &c, uint8_t k1[16], uint8_t k2[16])
{
        uint8_t L[16] = { 0 };
        c.enc(L, L);
        memcpy(k1, L, 16);
        dbl(k1, 16);
        memcpy(k2, k1, 16);
        dbl(k2, 16);
}
void
ref_xcbc_keys(const uint8_t key[16], uint8_t k1[16], uint8_t k2[16], uint8_t k3[16])
{
        BlockCipher *k = new_aes(key, 16);
        uint8_t c1[16], c2[16], c3[16];
        memset(c1, 1, 16);
        memset(c2, 2, 16);
        memset(c3, 3, 16);
        k->enc(c1, k1);
        k->enc(c2, k2);
        k->enc(c3, k3);
        delete k;
}
void ref_sm3_init(uint32_t st[8]);
void ref_sm3_compress(uint32_t V[8], const uint8_t block[64]);
size_t
ref_hmac_pad_state(HashId h, const uint8_t *key, size_t key_len, uint8_t pad, uint8_t *out)
{
        const size_t B = hash_block(h);
        Bytes k(B, 0);
        if (key_len > B) {
                Bytes kh = ref_hash(h, key, key_len);
                memcpy(k.data(), kh.data(), kh.size());
        } else if (key_len)
                memcpy(k.data(), key, key_len);
        for (auto &b : k)
                b ^= pad;
        switch (h) {
        case H_SHA1: {
                SHA_CTX c;
                SHA1_Init(&c);
                SHA1_Update(&c, k.data(), B);
                uint32_t w[5] = { c.h0, c.h1, c.h2, c.h3, c.h4 };
                memcpy(out, w, 20);
                return 20;
        }
        case H_SHA224:
        case H_SHA256: {
                SHA256_CTX c;
                if (h == H_SHA224)
                        SHA224_Init(&c);
                else
                        SHA256_Init(&c);
                SHA256_Update(&c, k.data(), B);
                memcpy(out, c.h, 32);
                return 32;
        }
        case H_SHA384:
        case H_SHA512: {
                SHA512_CTX c;
                if (h == H_SHA384)
                        SHA384_Init(&c);
                else
                        SHA512_Init(&c);
                SHA512_Update(&c, k.data(), B);
                memcpy(out, c.h, 64);
                return 64;
        }
        case H_MD5: {
                MD5_CTX c;
                MD5_Init(&c);
                MD5_Update(&c, k.data(), B);
                uint32_t w[4] = { c.A, c.B, c.C, c.D };
                memcpy(out, w, 16);
                return 16;
        }
        case H_SM3: {
                uint32_t st[8];
                ref_sm3_init(st);
                ref_sm3_compress(st, k.data());
                memcpy(out, st, 32);
                return 32;
        }
        default: return 0;
        }
}

// ---- SM3 compression function (GB/T 32905-2016), needed for the HMAC-SM3 pad states; admitted against
// libcrypto's SM3 by ref_sm3_selfcheck() (tools/ref_admit.sh and at start-up of the C11 check)
static inline uint32_t rol32(uint32_t x, unsigned n) { n &= 31; return n ? (x << n) | (x >> (32 - n)) : x; }
void
ref_sm3_init(uint32_t st[8])
{
        static const uint32_t iv[8] = { 0x7380166f, 0x4914b2b9, 0x172442d7, 0xda8a0600, 0xa96f30bc, 0x163138aa, 0xe38dee4d, 0xb0fb0e4e };
        memcpy(st, iv, sizeof iv);
}
void
ref_sm3_compress(uint32_t V[8], const uint8_t block[64])
{
        uint32_t W[68], W1[64];
        for (int j = 0; j < 16; j++)
                W[j] = ((uint32_t) block[4 * j] << 24) | ((uint32_t) block[4 * j + 1] << 16) | ((uint32_t) block[4 * j + 2] << 8) | block[4 * j + 3];
        auto P1 = [](uint32_t x) { return x ^ rol32(x, 15) ^ rol32(x, 23); };
        auto P0 = [](uint32_t x) { return x ^ rol32(x, 9) ^ rol32(x, 17); };
        for (int j = 16; j < 68; j++)
                W[j] = P1(W[j - 16] ^ W[j - 9] ^ rol32(W[j - 3], 15)) ^ rol32(W[j - 13], 7) ^ W[j - 6];
        for (int j = 0; j < 64; j++)
                W1[j] = W[j] ^ W[j + 4];
        uint32_t A = V[0], B = V[1], C = V[2], D = V[3], E = V[4], F = V[5], G = V[6], H = V[7];
        for (int j = 0; j < 64; j++) {
                const uint32_t T = j < 16 ? 0x79cc4519u : 0x7a879d8au;
                const uint32_t SS1 = rol32(rol32(A, 12) + E + rol32(T, (unsigned) j), 7);
                const uint32_t SS2 = SS1 ^ rol32(A, 12);
                const uint32_t FF = j < 16 ? (A ^ B ^ C) : ((A & B) | (A & C) | (B & C));
                const uint32_t GG = j < 16 ? (E ^ F ^ G) : ((E & F) | (~E & G));
                const uint32_t TT1 = FF + D + SS2 + W1[j];
                const uint32_t TT2 = GG + H + SS1 + W[j];
                D = C;
                C = rol32(B, 9);
                B = A;
                A = TT1;
                H = G;
                G = rol32(F, 19);
                F = E;
                E = P0(TT2);
        }
        V[0] ^= A; V[1] ^= B; V[2] ^= C; V[3] ^= D; V[4] ^= E; V[5] ^= F; V[6] ^= G; V[7] ^= H;
}
bool
ref_sm3_selfcheck()
{
        // hash messages of several lengths with the compression function + hand-made padding; compare with libcrypto
        for (size_t len : { (size_t) 0, (size_t) 3, (size_t) 55, (size_t) 56, (size_t) 64, (size_t) 119, (size_t) 200 }) {
                Bytes m(len);
                for (size_t i = 0; i < len; i++)
                        m[i] = (uint8_t) (i * 7 + len);
                Bytes p = m;
                p.push_back(0x80);
                while (p.size() % 64 != 56)
                        p.push_back(0);
                const uint64_t bits = (uint64_t) len * 8;
                for (int i = 7; i >= 0; i--)
                        p.push_back((uint8_t) (bits >> (8 * i)));
                uint32_t st[8];
                ref_sm3_init(st);
                for (size_t o = 0; o < p.size(); o += 64)
                        ref_sm3_compress(st, p.data() + o);
                uint8_t dg[32];
                for (int i = 0; i < 8; i++) {
                        dg[4 * i] = (uint8_t) (st[i] >> 24);
                        dg[4 * i + 1] = (uint8_t) (st[i] >> 16);
                        dg[4 * i + 2] = (uint8_t) (st[i] >> 8);
                        dg[4 * i + 3] = (uint8_t) st[i];
                }
                Bytes want = ref_hash(H_SM3, m.data(), len);
                if (want.size() != 32 || memcmp(want.data(), dg, 32) != 0)
                        return false;
        }
        return true;
}

// inner digest of HMAC: H((K' xor ipad) || msg), K' = key, or H(key) when the key is longer than a block
Bytes ref_hmac_inner(HashId h, const uint8_t *key, size_t key_len, const uint8_t *msg, size_t len)
{
        const size_t B = hash_block(h);
        Bytes k(key, key + key_len);
        if (k.size() > B)
                k = ref_hash(h, k.data(), k.size());
        k.resize(B, 0);
        Bytes in(B + len);
        for (size_t i = 0; i < B; i++)
                in[i] = (uint8_t) (k[i] ^ 0x36);
        if (len)
                memcpy(in.data() + B, msg, len);
        return ref_hash(h, in.data(), in.size());
}

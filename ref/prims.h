// Textbook primitives used by the reference model. Block ciphers and plain
// hashes come from libcrypto (an implementation independent of the library
// under test); every mode of operation, MAC construction, AEAD composition and
// CRC is written here from the specifications.
#pragma once
#include <stdint.h>
#include <stddef.h>
#include <string.h>
#include <vector>

typedef std::vector<uint8_t> Bytes;

// ---- block ciphers (single block)
struct BlockCipher {
        virtual ~BlockCipher() {}
        virtual size_t bs() const = 0;
        virtual void enc(const uint8_t *in, uint8_t *out) const = 0;
        virtual void dec(const uint8_t *in, uint8_t *out) const = 0;
};
BlockCipher *new_aes(const uint8_t *key, size_t key_len);
BlockCipher *new_des(const uint8_t *key);                 // 8-byte key
BlockCipher *new_des3(const uint8_t *key);                // 24-byte key, EDE
BlockCipher *new_sm4(const uint8_t *key);                 // 16-byte key

// ---- modes (in, out may alias unless noted)
void ref_ecb(const BlockCipher &c, bool enc, const uint8_t *in, uint8_t *out, size_t len);
void ref_cbc(const BlockCipher &c, bool enc, const uint8_t *iv, const uint8_t *in, uint8_t *out, size_t len, uint8_t *last_ct = nullptr);
void ref_cfb128(const BlockCipher &c, bool enc, const uint8_t *iv, const uint8_t *in, uint8_t *out, size_t len);
// CTR with a 16-byte counter block whose last 32 bits are incremented modulo 2^32
void ref_ctr32(const BlockCipher &c, const uint8_t ctr0[16], const uint8_t *in, uint8_t *out, size_t len);
// CTR whose last ctr_bytes bytes are incremented (big endian, modulo 2^(8*ctr_bytes))
void ref_ctr_n(const BlockCipher &c, const uint8_t ctr0[16], int ctr_bytes, const uint8_t *in, uint8_t *out, size_t len);
// DOCSIS BPI: CBC over the full blocks, residual termination (CFB) for the tail / short frames
void ref_docsis(const BlockCipher &c, bool enc, const uint8_t *iv, const uint8_t *in, uint8_t *out, size_t len);

// ---- hashes (libcrypto)
enum HashId { H_MD5, H_SHA1, H_SHA224, H_SHA256, H_SHA384, H_SHA512, H_SM3 };
size_t hash_len(HashId h);
size_t hash_block(HashId h);
Bytes ref_hash(HashId h, const uint8_t *msg, size_t len);
Bytes ref_hmac(HashId h, const uint8_t *key, size_t key_len, const uint8_t *msg, size_t len);
Bytes ref_hmac_inner(HashId h, const uint8_t *key, size_t key_len, const uint8_t *msg, size_t len);

// ---- MACs written from the specs
Bytes ref_cmac(const BlockCipher &c, const uint8_t *msg, uint64_t bit_len);                 // NIST SP 800-38B (bit length: 3GPP EIA2)
Bytes ref_xcbc(const uint8_t key[16], const uint8_t *msg, size_t len);                      // RFC 3566 (full 16 bytes)
void gf128_mul(uint8_t x[16], const uint8_t y[16]);                                         // GCM field, x = x*y
Bytes ref_ghash(const uint8_t h[16], const uint8_t init[16], const uint8_t *msg, size_t len); // raw GHASH of zero-padded msg
Bytes ref_poly1305(const uint8_t key[32], const uint8_t *msg, size_t len);                  // RFC 8439
void ref_chacha20(const uint8_t key[32], const uint8_t nonce[12], uint32_t counter, const uint8_t *in, uint8_t *out, size_t len);

// ---- AEADs
struct AeadOut {
        Bytes out, tag;
};
AeadOut ref_gcm(const BlockCipher &c, bool enc, const uint8_t *iv, size_t iv_len, const uint8_t *aad, size_t aad_len,
                const uint8_t *in, size_t len);                                              // NIST SP 800-38D, any IV length
Bytes ref_gmac(const BlockCipher &c, const uint8_t *iv, size_t iv_len, const uint8_t *msg, size_t len);
AeadOut ref_ccm(const BlockCipher &c, bool enc, const uint8_t *nonce, size_t nonce_len, const uint8_t *aad, size_t aad_len,
                const uint8_t *in, size_t len, size_t tag_len);                              // RFC 3610
AeadOut ref_chacha20_poly1305(bool enc, const uint8_t key[32], const uint8_t nonce[12], const uint8_t *aad, size_t aad_len,
                              const uint8_t *in, size_t len);                                // RFC 8439

// ---- CRCs, bit-serial from (width, poly, init, refin, refout, xorout)
struct CrcParams {
        int width;
        uint32_t poly, init;
        bool refin, refout;
        uint32_t xorout;
};
uint32_t ref_crc(const CrcParams &p, const uint8_t *msg, size_t len);

// ---- key schedules written from the standards (C11)
// AES key expansion (FIPS-197 5.2) and the equivalent-inverse-cipher decrypt schedule (5.3.5):
// enc = Nr+1 round keys of 16 bytes; dec[0]=enc[Nr], dec[i]=InvMixColumns(enc[Nr-i]) for 0<i<Nr, dec[Nr]=enc[0]
void ref_aes_keyexp(const uint8_t *key, size_t key_len, uint8_t *enc, uint8_t *dec);
void ref_cmac_subkeys(const BlockCipher &c, uint8_t k1[16], uint8_t k2[16]);
void ref_xcbc_keys(const uint8_t key[16], uint8_t k1[16], uint8_t k2[16], uint8_t k3[16]);
// state words of the hash after absorbing one block (key xor pad), in host word order; returns byte count
size_t ref_hmac_pad_state(HashId h, const uint8_t *key, size_t key_len, uint8_t pad, uint8_t *out);
void ref_sm3_init(uint32_t st[8]);
void ref_sm3_compress(uint32_t V[8], const uint8_t block[64]);
bool ref_sm3_selfcheck(); // compression function + hand padding == libcrypto SM3

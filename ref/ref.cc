// Reference model of one job: applies textbook implementations to a shadow copy
// of the caller's memory, in the order the job's chain order prescribes.
#include "../sim/interp.h"
#include "prims.h"
#include "wireless.h"
#include "snowv_pon.h"
#include <memory>

void mat_raw_keys(uint64_t key_seed, uint8_t rawc[64], uint8_t rawa[160]);

namespace {

struct Shadow {
        Bytes src;    // whole source buffer
        Bytes dst;    // separate destination object (out-of-place) or empty
        bool inplace;
        uint32_t out_off; // offset of the cipher output inside src (in-place)
};

bool
hash_id_of(int h, HashId &id, bool &hmac)
{
        hmac = false;
        switch (h) {
        case IMB_AUTH_HMAC_SHA_1: hmac = true; // fallthrough
        case IMB_AUTH_SHA_1: id = H_SHA1; return true;
        case IMB_AUTH_HMAC_SHA_224: hmac = true; // fallthrough
        case IMB_AUTH_SHA_224: id = H_SHA224; return true;
        case IMB_AUTH_HMAC_SHA_256: hmac = true; // fallthrough
        case IMB_AUTH_SHA_256: id = H_SHA256; return true;
        case IMB_AUTH_HMAC_SHA_384: hmac = true; // fallthrough
        case IMB_AUTH_SHA_384: id = H_SHA384; return true;
        case IMB_AUTH_HMAC_SHA_512: hmac = true; // fallthrough
        case IMB_AUTH_SHA_512: id = H_SHA512; return true;
        case IMB_AUTH_MD5: hmac = true; id = H_MD5; return true;
        case IMB_AUTH_HMAC_SM3: hmac = true; // fallthrough
        case IMB_AUTH_SM3: id = H_SM3; return true;
        }
        return false;
}

bool
crc_params_of(int h, CrcParams &p)
{
        switch (h) {
        case IMB_AUTH_CRC32_ETHERNET_FCS: p = { 32, 0x04C11DB7, 0xFFFFFFFF, true, true, 0xFFFFFFFF }; return true;
        case IMB_AUTH_CRC16_X25: p = { 16, 0x1021, 0xFFFF, true, true, 0xFFFF }; return true;
        case IMB_AUTH_CRC32_SCTP: p = { 32, 0x1EDC6F41, 0, false, false, 0 }; return true;
        case IMB_AUTH_CRC24_LTE_A: p = { 24, 0x864CFB, 0, false, false, 0 }; return true;
        case IMB_AUTH_CRC24_LTE_B: p = { 24, 0x800063, 0, false, false, 0 }; return true;
        case IMB_AUTH_CRC16_FP_DATA: p = { 16, 0x8005, 0, false, false, 0 }; return true;
        case IMB_AUTH_CRC11_FP_HEADER: p = { 11, 0x307, 0, false, false, 0 }; return true;
        case IMB_AUTH_CRC7_FP_HEADER: p = { 7, 0x45, 0, false, false, 0 }; return true;
        case IMB_AUTH_CRC10_IUUP_DATA: p = { 10, 0x233, 0, false, false, 0 }; return true;
        case IMB_AUTH_CRC6_IUUP_HEADER: p = { 6, 0x2F, 0, false, false, 0 }; return true;
        case IMB_AUTH_CRC32_WIMAX_OFDMA_DATA: p = { 32, 0x04C11DB7, 0xFFFFFFFF, false, false, 0xFFFFFFFF }; return true;
        case IMB_AUTH_CRC8_WIMAX_OFDMA_HCS: p = { 8, 0x07, 0, false, false, 0 }; return true;
        }
        return false;
}

std::unique_ptr<BlockCipher>
block_cipher_for(int cipher, unsigned key_len, const uint8_t *rawc)
{
        switch (cipher) {
        case IMB_CIPHER_CBC:
        case IMB_CIPHER_CNTR:
        case IMB_CIPHER_CNTR_BITLEN:
        case IMB_CIPHER_ECB:
        case IMB_CIPHER_CFB:
        case IMB_CIPHER_CBCS_1_9:
        case IMB_CIPHER_DOCSIS_SEC_BPI:
        case IMB_CIPHER_GCM:
        case IMB_CIPHER_GCM_SGL:
        case IMB_CIPHER_CCM:
        case IMB_CIPHER_PON_AES_CNTR: return std::unique_ptr<BlockCipher>(new_aes(rawc, key_len));
        case IMB_CIPHER_DES:
        case IMB_CIPHER_DOCSIS_DES: return std::unique_ptr<BlockCipher>(new_des(rawc));
        case IMB_CIPHER_DES3: return std::unique_ptr<BlockCipher>(new_des3(rawc));
        case IMB_CIPHER_SM4_ECB:
        case IMB_CIPHER_SM4_CBC:
        case IMB_CIPHER_SM4_CNTR:
        case IMB_CIPHER_SM4_GCM: return std::unique_ptr<BlockCipher>(new_sm4(rawc));
        }
        return nullptr;
}

void
ctr_block(const uint8_t *iv, unsigned iv_len, uint8_t ctr[16])
{
        if (iv_len == 12) {
                memcpy(ctr, iv, 12);
                ctr[12] = ctr[13] = ctr[14] = 0;
                ctr[15] = 1;
        } else
                memcpy(ctr, iv, 16);
}

// cipher stage over in[0..len) -> out (bytes; for bit-length modes len_bits gives the exact bit count)
bool
ref_cipher_stage(const JobSpec &s, const uint8_t *rawc, const uint8_t *iv, const uint8_t *in, uint8_t *out, uint32_t nbytes,
                 Bytes *niv, uint8_t *mask_last)
{
        const bool enc = s.dir == IMB_DIR_ENCRYPT;
        std::unique_ptr<BlockCipher> bc = block_cipher_for(s.cipher, s.key_len, rawc);
        uint8_t ctr[16];
        switch (s.cipher) {
        case IMB_CIPHER_CBC:
        case IMB_CIPHER_DES:
        case IMB_CIPHER_DES3:
        case IMB_CIPHER_SM4_CBC:
                if (!bc)
                        return false;
                ref_cbc(*bc, enc, iv, in, out, nbytes);
                return true;
        case IMB_CIPHER_ECB:
        case IMB_CIPHER_SM4_ECB:
                if (!bc)
                        return false;
                ref_ecb(*bc, enc, in, out, nbytes);
                return true;
        case IMB_CIPHER_CFB: ref_cfb128(*bc, enc, iv, in, out, nbytes); return true;
        case IMB_CIPHER_CNTR:
        case IMB_CIPHER_SM4_CNTR:
                if (!bc)
                        return false;
                ctr_block(iv, s.iv_len, ctr);
                ref_ctr32(*bc, ctr, in, out, nbytes);
                return true;
        case IMB_CIPHER_CNTR_BITLEN: {
                // 128-EEA2 (3GPP TS 33.401 B.1.3): the least significant 64 bits of the counter block are incremented mod 2^64
                memcpy(ctr, iv, 16);
                ref_ctr_n(*bc, ctr, 8, in, out, nbytes);
                unsigned rb = s.c_len & 7;
                if (rb && mask_last)
                        *mask_last = (uint8_t) (0xFF << (8 - rb)); // only the leading rb bits of the last byte are defined
                return true;
        }
        case IMB_CIPHER_DOCSIS_SEC_BPI:
        case IMB_CIPHER_DOCSIS_DES: ref_docsis(*bc, enc, iv, in, out, nbytes); return true;
        case IMB_CIPHER_CBCS_1_9: {
                // 1:9 pattern: one 16-byte block ciphered (CBC chaining across ciphered blocks), nine left as they are
                uint8_t prev[16], t[16], ct[16];
                memcpy(prev, iv, 16);
                for (uint32_t o = 0; o + 16 <= nbytes; o += 160) {
                        if (enc) {
                                for (int k = 0; k < 16; k++)
                                        t[k] = in[o + k] ^ prev[k];
                                bc->enc(t, prev);
                                memcpy(out + o, prev, 16);
                        } else {
                                memcpy(ct, in + o, 16);
                                bc->dec(ct, t);
                                for (int k = 0; k < 16; k++)
                                        out[o + k] = t[k] ^ prev[k];
                                memcpy(prev, ct, 16);
                        }
                }
                if (niv)
                        niv->assign(prev, prev + 16);
                return true;
        }
        case IMB_CIPHER_CHACHA20: ref_chacha20(rawc, iv, 1, in, out, nbytes); return true;
        case IMB_CIPHER_ZUC_EEA3:
                if (s.key_len == 16)
                        return ref_zuc_eea3(rawc, iv, in, out, nbytes);
                return ref_zuc256_eea3(rawc, iv, s.iv_len, in, out, nbytes);
        case IMB_CIPHER_SNOW_V: return ref_snow_v(rawc, iv, in, out, nbytes);
        case IMB_CIPHER_SNOW3G_UEA2_BITLEN:
        case IMB_CIPHER_KASUMI_UEA1_BITLEN: return false; // handled by the caller (bit offsets)
        }
        return false;
}

bool
ref_hash_stage(const JobSpec &s, const uint8_t *rawa, const MatJob &mj, const uint8_t *msg, Bytes &tag)
{
        const uint32_t nbytes = spec_h_bytes(s);
        HashId id;
        bool hmac;
        CrcParams cp;
        if (hash_id_of(s.hash, id, hmac)) {
                tag = hmac ? ref_hmac(id, rawa, s.hkey_len, msg, nbytes) : ref_hash(id, msg, nbytes);
                tag.resize(s.tag_len);
                return true;
        }
        if (crc_params_of(s.hash, cp)) {
                uint32_t v = ref_crc(cp, msg, nbytes);
                tag.assign(4, 0);
                for (int i = 0; i < 4; i++)
                        tag[i] = (uint8_t) (v >> (8 * i));
                return true;
        }
        switch (s.hash) {
        case IMB_AUTH_AES_XCBC:
                tag = ref_xcbc(rawa, msg, nbytes);
                tag.resize(s.tag_len);
                return true;
        case IMB_AUTH_AES_CMAC:
        case IMB_AUTH_AES_CMAC_BITLEN:
        case IMB_AUTH_AES_CMAC_256: {
                std::unique_ptr<BlockCipher> a(new_aes(rawa, s.hash == IMB_AUTH_AES_CMAC_256 ? 32 : 16));
                uint64_t bits = s.hash == IMB_AUTH_AES_CMAC_BITLEN ? s.h_len : (uint64_t) s.h_len * 8;
                tag = ref_cmac(*a, msg, bits);
                tag.resize(s.tag_len);
                return true;
        }
        case IMB_AUTH_AES_GMAC_128:
        case IMB_AUTH_AES_GMAC_192:
        case IMB_AUTH_AES_GMAC_256: {
                unsigned kl = s.hash == IMB_AUTH_AES_GMAC_128 ? 16 : s.hash == IMB_AUTH_AES_GMAC_192 ? 24 : 32;
                std::unique_ptr<BlockCipher> a(new_aes(rawa, kl));
                tag = ref_gmac(*a, mj.pre[O_AIV].data(), s.aiv_len, msg, nbytes);
                tag.resize(s.tag_len);
                return true;
        }
        case IMB_AUTH_GHASH:
                tag = ref_ghash(rawa, mj.pre[O_AIV].data(), msg, nbytes);
                tag.resize(s.tag_len);
                return true;
        case IMB_AUTH_POLY1305:
                tag = ref_poly1305(rawa, msg, nbytes);
                return true;
        case IMB_AUTH_ZUC_EIA3_BITLEN: return ref_zuc_eia3(rawa, mj.pre[O_AIV].data(), msg, s.h_len, tag);
        case IMB_AUTH_ZUC256_EIA3_BITLEN:
                return ref_zuc256_eia3(rawa, mj.pre[O_AIV].data(), s.aiv_len, msg, s.h_len, s.tag_len, tag);
        case IMB_AUTH_SNOW3G_UIA2_BITLEN: return ref_snow3g_uia2(rawa, mj.pre[O_AIV].data(), msg, s.h_len, tag);
        case IMB_AUTH_KASUMI_UIA1: return ref_kasumi_f9_user(rawa, msg, nbytes, tag);
        }
        return false;
}

} // namespace

bool
ref_compute(const JobSpec &s, const MatJob &mj, RefOut &ro)
{
        uint8_t rawc[64], rawa[160];
        mat_raw_keys(s.key_seed, rawc, rawa);
        const bool enc = s.dir == IMB_DIR_ENCRYPT;
        Bytes src = mj.pre[O_SRC];
        Bytes dstobj = mj.obj[O_DST].valid() ? mj.pre[O_DST] : Bytes();
        const uint8_t *iv = mj.obj[O_IV].valid() ? mj.pre[O_IV].data() : nullptr;
        const uint8_t *aad = mj.obj[O_AAD].valid() ? mj.pre[O_AAD].data() : nullptr;
        const uint32_t cb = spec_c_bytes(s);
        ro = RefOut();

        // ------------------------------------------------ AEAD / combined modes
        if (s.cipher == IMB_CIPHER_GCM || s.cipher == IMB_CIPHER_SM4_GCM || s.cipher == IMB_CIPHER_CCM ||
            s.cipher == IMB_CIPHER_CHACHA20_POLY1305) {
                AeadOut ao;
                const uint8_t *in = src.data() + s.c_off;
                if (s.cipher == IMB_CIPHER_CHACHA20_POLY1305)
                        ao = ref_chacha20_poly1305(enc, rawc, iv, aad, s.aad_len, in, s.c_len);
                else {
                        std::unique_ptr<BlockCipher> bc = block_cipher_for(s.cipher, s.key_len, rawc);
                        if (!bc)
                                return false;
                        if (s.cipher == IMB_CIPHER_CCM)
                                ao = ref_ccm(*bc, enc, iv, s.iv_len, aad, s.aad_len, in, s.c_len, s.tag_len);
                        else
                                ao = ref_gcm(*bc, enc, iv, s.iv_len, aad, s.aad_len, in, s.c_len);
                }
                ao.tag.resize(s.tag_len);
                ro.tag = ao.tag;
                ro.dst = ao.out;
                if (s.inplace) {
                        memcpy(src.data() + s.c_off, ao.out.data(), ao.out.size());
                        ro.src_post = src;
                } else {
                        ro.src_post = src;
                }
                if (ro.dst.empty())
                        ro.dst.clear();
                return true;
        }
        if (s.hash == IMB_AUTH_DOCSIS_CRC32) {
                // Ethernet frame over DOCSIS: CRC32 (Ethernet FCS) over [h_off, h_off+h_len) is placed right after the
                // hashed range, then the BPI cipher runs over [c_off, c_off+c_len) (encrypt); reverse order on decrypt.
                if (s.h_len == 0 && s.c_len) {
                        // CRC switched off: plain BPI cipher over the cipher range, no tag defined
                        std::unique_ptr<BlockCipher> bc0 = block_cipher_for(s.cipher, s.key_len, rawc);
                        ref_docsis(*bc0, enc, iv, src.data() + s.c_off, src.data() + s.c_off, s.c_len);
                        ro.tag.clear();
                        ro.dst.assign(src.begin() + s.c_off, src.begin() + s.c_off + s.c_len);
                        ro.src_post = src;
                        return true;
                }
                if (s.h_len < 14)
                        return false; // below the minimum Ethernet PDU: outside the documented assumptions
                std::unique_ptr<BlockCipher> bc = block_cipher_for(s.cipher, s.key_len, rawc);
                CrcParams cp;
                crc_params_of(IMB_AUTH_CRC32_ETHERNET_FCS, cp);
                if (enc) {
                        uint32_t v = ref_crc(cp, src.data() + s.h_off, s.h_len);
                        ro.tag.assign(4, 0);
                        for (int i = 0; i < 4; i++) {
                                ro.tag[i] = (uint8_t) (v >> (8 * i));
                                src[s.h_off + s.h_len + i] = ro.tag[i];
                        }
                        if (s.c_len)
                                ref_docsis(*bc, true, iv, src.data() + s.c_off, src.data() + s.c_off, s.c_len);
                } else {
                        if (s.c_len)
                                ref_docsis(*bc, false, iv, src.data() + s.c_off, src.data() + s.c_off, s.c_len);
                        uint32_t v = ref_crc(cp, src.data() + s.h_off, s.h_len);
                        ro.tag.assign(4, 0);
                        for (int i = 0; i < 4; i++)
                                ro.tag[i] = (uint8_t) (v >> (8 * i));
                }
                ro.src_post = src;
                ro.dst.assign(src.begin() + s.c_off, src.begin() + s.c_off + s.c_len);
                return true;
        }
        if (s.cipher == IMB_CIPHER_SNOW_V_AEAD) {
                Bytes out(s.c_len);
                uint8_t tg[16];
                if (!ref_snow_v_aead(enc, rawc, iv, aad, s.aad_len, src.data() + s.c_off, out.data(), s.c_len, tg))
                        return false;
                ro.tag.assign(tg, tg + 16);
                ro.tag.resize(s.tag_len);
                ro.dst = out;
                if (s.inplace)
                        memcpy(src.data() + s.c_off, out.data(), out.size());
                ro.src_post = src;
                return true;
        }
        if (s.cipher == IMB_CIPHER_PON_AES_CNTR) {
                // whole XGEM frame [h_off, h_off + h_len): header (HEC rewritten on encrypt), payload with CRC, padding
                Bytes frame(s.h_len);
                uint8_t tg[8];
                if (!ref_pon(enc, s.key_len ? rawc : nullptr, iv, src.data() + s.h_off, frame.data(), s.h_len, s.pon_pli, tg))
                        return false;
                memcpy(src.data() + s.h_off, frame.data(), s.h_len);
                ro.tag.assign(tg, tg + 8);
                if (s.pon_pli <= 4)
                        memset(ro.tag.data() + 4, 0, 4); // the CRC word is unspecified for PLI <= 4 (masked in the library's output too)
                ro.src_post = src;
                if (s.c_len)
                        ro.dst.assign(src.begin() + s.c_off, src.begin() + s.c_off + s.c_len);
                return true;
        }
        if (aead_hash_for(s.cipher))
                return false; // SGL forms are compared with their one-shot jobs (C10), not here

        // ------------------------------------------------ generic cipher and/or hash, composed in chain order
        const bool have_c = s.cipher != IMB_CIPHER_NULL, have_h = s.hash != IMB_AUTH_NULL;
        bool hash_done = false;
        Bytes tag;
        auto do_hash = [&]() -> bool {
                // "the hash stage sees the source range exactly as it stands when that stage runs"
                if (!ref_hash_stage(s, rawa, mj, src.data() + s.h_off, tag))
                        return false;
                hash_done = true;
                return true;
        };
        if (have_h && s.order == IMB_ORDER_HASH_CIPHER)
                if (!do_hash())
                        return false;
        if (have_c) {
                uint8_t mask_last = 0xFF;
                Bytes out(cb);
                if (cipher_off_is_bits(s.cipher)) {
                        // SNOW3G-UEA2 / KASUMI-F8: keystream XOR on a bit range [c_off, c_off+c_len) of the buffer
                        Bytes ks((s.c_len + 7) / 8 + 8);
                        bool ok = s.cipher == IMB_CIPHER_SNOW3G_UEA2_BITLEN ? ref_snow3g_f8_keystream(rawc, iv, ks.data(), ks.size())
                                                                            : ref_kasumi_f8_keystream(rawc, iv, ks.data(), ks.size());
                        if (!ok)
                                return false;
                        const bool bp = spec_bitpath(s);
                        Bytes full = src; // work on the whole buffer image
                        for (uint32_t b = 0; b < s.c_len; b++) {
                                uint32_t pos = s.c_off + b;
                                uint8_t kb = (uint8_t) ((ks[b / 8] >> (7 - (b & 7))) & 1);
                                full[pos / 8] ^= (uint8_t) (kb << (7 - (pos & 7)));
                        }
                        if (bp) {
                                // output is the whole buffer image at dst (bits outside the range: source bits for in-place;
                                // for out-of-place only the bits in range are defined)
                                ro.dst = full;
                                if (s.inplace) {
                                        // bits after the range in the last byte are not specified (KASUMI keeps the old bits,
                                        // SNOW3G leaves keystream there): take the library's
                                        const unsigned endbits = (s.c_off + s.c_len) & 7;
                                        if (endbits && s.c_len) {
                                                const uint32_t lb = (s.c_off + s.c_len - 1) / 8;
                                                const uint8_t keep = (uint8_t) (0xFF >> endbits);
                                                full[lb] = (uint8_t) ((full[lb] & ~keep) | (mj.src[lb] & keep));
                                                ro.dst = full;
                                        }
                                        src = full;
                                } else {
                                        // compare only bytes fully inside the range plus masked edges
                                        uint32_t fb = s.c_off / 8, lb = (s.c_off + s.c_len - 1) / 8;
                                        Bytes exp = dstobj;
                                        for (uint32_t i = fb; i <= lb; i++)
                                                exp[i] = full[i];
                                        ro.dst = exp;
                                        // edge bytes: what happens to destination bits outside the range is not specified
                                        ro.dst_mask.assign(exp.size(), 0xFF);
                                        ro.dst_mask[fb] &= (uint8_t) (0xFF >> (s.c_off & 7));
                                        unsigned endbits = (s.c_off + s.c_len) & 7;
                                        if (endbits)
                                                ro.dst_mask[lb] &= (uint8_t) (0xFF << (8 - endbits));
                                }
                        } else {
                                uint32_t o = s.c_off / 8;
                                out.assign(full.begin() + o, full.begin() + o + cb);
                                if (s.inplace)
                                        memcpy(src.data() + o, out.data(), cb);
                                ro.dst = out;
                        }
                } else {
                        if (s.cipher == IMB_CIPHER_CBCS_1_9)
                                out.assign(src.begin() + s.c_off, src.begin() + s.c_off + cb); // skipped blocks stay as they are
                        if (!ref_cipher_stage(s, rawc, iv, src.data() + s.c_off, out.data(), cb, &ro.niv, &mask_last))
                                return false;
                        if (s.cipher == IMB_CIPHER_CBCS_1_9 && !s.inplace) {
                                // blocks that are not ciphered: the destination keeps whatever it held (they are not copied)
                                for (uint32_t o = 0; o < cb; o++)
                                        if ((o / 16) % 10 != 0)
                                                out[o] = dstobj[o];
                        }
                        ro.dst_mask_last = mask_last;
                        if (s.inplace) {
                                if (mask_last != 0xFF && cb) {
                                        // bit-length: bits after the range in the last byte are not specified; take the library's
                                        uint8_t keep = (uint8_t) ~mask_last;
                                        out[cb - 1] = (uint8_t) ((out[cb - 1] & mask_last) | (mj.src[s.c_off + cb - 1] & keep));
                                }
                                memcpy(src.data() + s.c_off, out.data(), cb);
                        }
                        ro.dst = out;
                }
        }
        if (have_h && !hash_done)
                if (!do_hash())
                        return false;
        if (have_h)
                ro.tag = tag;
        ro.src_post = src;
        return true;
}

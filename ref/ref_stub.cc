#include "../sim/interp.h"
#ifndef HAVE_REF
bool ref_compute(const JobSpec &, const MatJob &, RefOut &) { return false; }
#endif

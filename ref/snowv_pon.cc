// Textbook reference implementations (oracle). Written from the specifications, not from the
// optimised library.
#include "snowv_pon.h"

#include <cstring>

// ============================================================================================
// AES building blocks (FIPS-197), S-box computed from its definition
// ============================================================================================
namespace {

uint8_t gf256_mul(uint8_t a, uint8_t b) // GF(2^8) mod x^8+x^4+x^3+x+1
{
        uint8_t r = 0;
        for (int i = 0; i < 8; i++) {
                if (b & 1)
                        r ^= a;
                const bool hi = (a & 0x80) != 0;
                a = (uint8_t) (a << 1);
                if (hi)
                        a ^= 0x1b;
                b >>= 1;
        }
        return r;
}

struct AesSbox {
        uint8_t s[256];
        AesSbox()
        {
                for (int x = 0; x < 256; x++) {
                        // multiplicative inverse (0 -> 0): x^254
                        uint8_t inv = 1;
                        for (int i = 0; i < 254; i++)
                                inv = gf256_mul(inv, (uint8_t) x);
                        if (x == 0)
                                inv = 0;
                        // affine transformation
                        uint8_t y = 0;
                        for (int bit = 0; bit < 8; bit++) {
                                const int b = ((inv >> bit) ^ (inv >> ((bit + 4) & 7)) ^
                                               (inv >> ((bit + 5) & 7)) ^ (inv >> ((bit + 6) & 7)) ^
                                               (inv >> ((bit + 7) & 7)) ^ (0x63 >> bit)) &
                                              1;
                                y |= (uint8_t) (b << bit);
                        }
                        s[x] = y;
                }
        }
};

const uint8_t *
aes_sbox()
{
        static const AesSbox box;
        return box.s;
}

// One AES encryption round on a 16-byte state laid out as in FIPS-197: byte index = 4*col + row.
// SubBytes, ShiftRows, MixColumns, AddRoundKey(rk).
void
aes_enc_round(const uint8_t in[16], const uint8_t rk[16], uint8_t out[16])
{
        const uint8_t *S = aes_sbox();
        uint8_t t[16];

        // SubBytes + ShiftRows: row r is rotated left by r columns
        for (int c = 0; c < 4; c++)
                for (int r = 0; r < 4; r++)
                        t[4 * c + r] = S[in[4 * ((c + r) & 3) + r]];
        // MixColumns
        for (int c = 0; c < 4; c++) {
                const uint8_t a0 = t[4 * c + 0], a1 = t[4 * c + 1], a2 = t[4 * c + 2],
                              a3 = t[4 * c + 3];
                out[4 * c + 0] = gf256_mul(a0, 2) ^ gf256_mul(a1, 3) ^ a2 ^ a3 ^ rk[4 * c + 0];
                out[4 * c + 1] = a0 ^ gf256_mul(a1, 2) ^ gf256_mul(a2, 3) ^ a3 ^ rk[4 * c + 1];
                out[4 * c + 2] = a0 ^ a1 ^ gf256_mul(a2, 2) ^ gf256_mul(a3, 3) ^ rk[4 * c + 2];
                out[4 * c + 3] = gf256_mul(a0, 3) ^ a1 ^ a2 ^ gf256_mul(a3, 2) ^ rk[4 * c + 3];
        }
}

// ============================================================================================
// SNOW-V
// ============================================================================================

// 128-bit register as 16 bytes; byte 0 is the least significant byte (the 128-bit value is
// the little-endian concatenation; 32-bit sub-words w_i = bytes 4i..4i+3, little-endian).
struct Reg128 {
        uint8_t b[16];
};

uint32_t
get_w(const Reg128 &r, int i)
{
        return (uint32_t) r.b[4 * i] | ((uint32_t) r.b[4 * i + 1] << 8) |
               ((uint32_t) r.b[4 * i + 2] << 16) | ((uint32_t) r.b[4 * i + 3] << 24);
}
void
set_w(Reg128 &r, int i, uint32_t v)
{
        r.b[4 * i] = (uint8_t) v;
        r.b[4 * i + 1] = (uint8_t) (v >> 8);
        r.b[4 * i + 2] = (uint8_t) (v >> 16);
        r.b[4 * i + 3] = (uint8_t) (v >> 24);
}

// parallel addition of four 32-bit sub-words modulo 2^32 ("boxplus_32")
Reg128
add32(const Reg128 &x, const Reg128 &y)
{
        Reg128 r;
        for (int i = 0; i < 4; i++)
                set_w(r, i, get_w(x, i) + get_w(y, i));
        return r;
}
Reg128
xor128(const Reg128 &x, const Reg128 &y)
{
        Reg128 r;
        for (int i = 0; i < 16; i++)
                r.b[i] = x.b[i] ^ y.b[i];
        return r;
}

// Multiplication by x / by x^-1 in GF(2^16) = GF(2)[x]/g(x).
// g^A(x) = x^16+x^15+x^12+x^11+x^8+x^3+x^2+x+1  -> low 16 bits 0x990f
// g^B(x) = x^16+x^15+x^14+x^11+x^8+x^6+x^5+x+1  -> low 16 bits 0xc963
const uint32_t GA = 0x1990f;
const uint32_t GB = 0x1c963;

uint16_t
mul_x(uint16_t v, uint32_t g)
{
        uint32_t t = (uint32_t) v << 1;
        if (t & 0x10000)
                t ^= g;
        return (uint16_t) t;
}
uint16_t
mul_x_inv(uint16_t v, uint32_t g)
{
        uint32_t t = v;
        if (t & 1)
                t ^= g; // g has constant term 1, so t becomes divisible by x
        return (uint16_t) (t >> 1);
}

struct SnowV {
        uint16_t A[16]; // a_0 .. a_15
        uint16_t B[16]; // b_0 .. b_15
        Reg128 R1, R2, R3;

        // one LFSR clock:
        //   a^(t+16) = b^(t) + alpha a^(t) + a^(t+1) + alpha^-1 a^(t+8)
        //   b^(t+16) = a^(t) + beta  b^(t) + b^(t+3) + beta^-1  b^(t+8)
        void lfsr_clock()
        {
                const uint16_t na =
                        (uint16_t) (B[0] ^ mul_x(A[0], GA) ^ A[1] ^ mul_x_inv(A[8], GA));
                const uint16_t nb =
                        (uint16_t) (A[0] ^ mul_x(B[0], GB) ^ B[3] ^ mul_x_inv(B[8], GB));
                for (int i = 0; i < 15; i++) {
                        A[i] = A[i + 1];
                        B[i] = B[i + 1];
                }
                A[15] = na;
                B[15] = nb;
        }

        Reg128 tap_T1() const // (b15, ..., b8), b8 least significant
        {
                Reg128 t;
                for (int i = 0; i < 8; i++) {
                        t.b[2 * i] = (uint8_t) B[8 + i];
                        t.b[2 * i + 1] = (uint8_t) (B[8 + i] >> 8);
                }
                return t;
        }
        Reg128 tap_T2() const // (a7, ..., a0), a0 least significant
        {
                Reg128 t;
                for (int i = 0; i < 8; i++) {
                        t.b[2 * i] = (uint8_t) A[i];
                        t.b[2 * i + 1] = (uint8_t) (A[i] >> 8);
                }
                return t;
        }

        // one full step: output z = (R1 +32 T1) xor R2, FSM update, LFSR clocked 8 times
        Reg128 step()
        {
                static const uint8_t sigma[16] = { 0, 4, 8, 12, 1, 5, 9, 13,
                                                   2, 6, 10, 14, 3, 7, 11, 15 };
                static const uint8_t zero_key[16] = { 0 };

                const Reg128 T1 = tap_T1();
                const Reg128 T2 = tap_T2();
                const Reg128 z = xor128(add32(R1, T1), R2);

                // FSM update
                const Reg128 tmp = add32(R2, xor128(R3, T2));
                Reg128 newR1, newR2, newR3;
                for (int i = 0; i < 16; i++)
                        newR1.b[i] = tmp.b[sigma[i]];
                aes_enc_round(R1.b, zero_key, newR2.b);
                aes_enc_round(R2.b, zero_key, newR3.b);
                R1 = newR1;
                R2 = newR2;
                R3 = newR3;

                for (int i = 0; i < 8; i++)
                        lfsr_clock();
                return z;
        }

        void init(const uint8_t key[32], const uint8_t iv[16], bool aead)
        {
                // (a15..a8) = (k7..k0), (a7..a0) = (iv7..iv0), (b15..b8) = (k15..k8),
                // (b7..b0) = 0 (or the AEAD constant); k_i, iv_i 16-bit little-endian words
                for (int i = 0; i < 8; i++) {
                        A[i] = (uint16_t) (iv[2 * i] | (iv[2 * i + 1] << 8));
                        A[8 + i] = (uint16_t) (key[2 * i] | (key[2 * i + 1] << 8));
                        B[i] = 0;
                        B[8 + i] = (uint16_t) (key[16 + 2 * i] | (key[16 + 2 * i + 1] << 8));
                }
                if (aead) {
                        // (b7..b0) = (6D6F 6854 676E 694A 2064 6B45 7865 6C41):
                        // the bytes "AlexEkd JingThom" read from b0 upwards, little-endian
                        static const char c[] = "AlexEkd JingThom";
                        for (int i = 0; i < 8; i++)
                                B[i] = (uint16_t) ((uint8_t) c[2 * i] |
                                                   ((uint8_t) c[2 * i + 1] << 8));
                }
                memset(&R1, 0, sizeof(R1));
                memset(&R2, 0, sizeof(R2));
                memset(&R3, 0, sizeof(R3));

                for (int t = 1; t <= 16; t++) {
                        const Reg128 z = step();
                        // (a15..a8) ^= z
                        for (int i = 0; i < 8; i++)
                                A[8 + i] ^= (uint16_t) (z.b[2 * i] | (z.b[2 * i + 1] << 8));
                        if (t == 15)
                                for (int i = 0; i < 16; i++)
                                        R1.b[i] ^= key[i]; // (k7..k0)
                        if (t == 16)
                                for (int i = 0; i < 16; i++)
                                        R1.b[i] ^= key[16 + i]; // (k15..k8)
                }
        }
};

// ============================================================================================
// GHASH (NIST SP 800-38D), bit 0 of a block = most significant bit of byte 0
// ============================================================================================
void
gf128_mul(const uint8_t X[16], const uint8_t Y[16], uint8_t out[16])
{
        uint8_t Z[16] = { 0 };
        uint8_t V[16];
        memcpy(V, Y, 16);
        for (int i = 0; i < 128; i++) {
                if ((X[i / 8] >> (7 - (i % 8))) & 1)
                        for (int j = 0; j < 16; j++)
                                Z[j] ^= V[j];
                const bool lsb = (V[15] & 1) != 0;
                for (int j = 15; j > 0; j--)
                        V[j] = (uint8_t) ((V[j] >> 1) | (V[j - 1] << 7));
                V[0] >>= 1;
                if (lsb)
                        V[0] ^= 0xe1;
        }
        memcpy(out, Z, 16);
}

void
ghash_update(uint8_t Y[16], const uint8_t H[16], const uint8_t *data, size_t len)
{
        // data is zero-padded to a multiple of 16 bytes
        for (size_t off = 0; off < len; off += 16) {
                uint8_t blk[16] = { 0 };
                const size_t n = (len - off < 16) ? (len - off) : 16;
                memcpy(blk, data + off, n);
                for (int j = 0; j < 16; j++)
                        Y[j] ^= blk[j];
                gf128_mul(Y, H, Y);
        }
}

void
put_be64(uint8_t *p, uint64_t v)
{
        for (int i = 0; i < 8; i++)
                p[i] = (uint8_t) (v >> (56 - 8 * i));
}

void
snow_v_xor_stream(SnowV &s, const uint8_t *in, uint8_t *out, size_t len)
{
        for (size_t off = 0; off < len; off += 16) {
                const Reg128 z = s.step();
                const size_t n = (len - off < 16) ? (len - off) : 16;
                for (size_t j = 0; j < n; j++)
                        out[off + j] = in[off + j] ^ z.b[j];
        }
}

} // namespace

bool
ref_snow_v(const uint8_t key[32], const uint8_t iv[16], const uint8_t *in, uint8_t *out,
           size_t len)
{
        if (key == nullptr || iv == nullptr || (len != 0 && (in == nullptr || out == nullptr)))
                return false;
        SnowV s;
        s.init(key, iv, false);
        snow_v_xor_stream(s, in, out, len);
        return true;
}

bool
ref_snow_v_aead(bool enc, const uint8_t key[32], const uint8_t iv[16], const uint8_t *aad,
                size_t aad_len, const uint8_t *in, uint8_t *out, size_t len, uint8_t tag[16])
{
        if (key == nullptr || iv == nullptr || tag == nullptr ||
            (len != 0 && (in == nullptr || out == nullptr)) || (aad_len != 0 && aad == nullptr))
                return false;

        SnowV s;
        s.init(key, iv, true);
        const Reg128 H = s.step();      // z(0): GHASH key
        const Reg128 endpad = s.step(); // z(1): tag mask

        // GHASH over the ciphertext: on decrypt hash the input before it may be overwritten
        Bytes ct;
        if (!enc && len)
                ct.assign(in, in + len);

        snow_v_xor_stream(s, in, out, len); // z(2), z(3), ...

        if (enc && len)
                ct.assign(out, out + len);

        uint8_t Y[16] = { 0 };
        ghash_update(Y, H.b, aad, aad_len);
        ghash_update(Y, H.b, ct.data(), len);
        uint8_t lenblk[16];
        put_be64(lenblk, (uint64_t) aad_len * 8);
        put_be64(lenblk + 8, (uint64_t) len * 8);
        ghash_update(Y, H.b, lenblk, 16);

        for (int i = 0; i < 16; i++)
                tag[i] = Y[i] ^ endpad.b[i];
        return true;
}

// ============================================================================================
// PON (XGEM frame): AES-128-CTR + CRC32 (Ethernet FCS) + BIP32, XGEM header HEC
// ============================================================================================
namespace {

// AES-128 block encryption (FIPS-197), built on the round function above.
struct Aes128 {
        uint8_t rk[11][16];

        explicit Aes128(const uint8_t key[16])
        {
                const uint8_t *S = aes_sbox();
                uint8_t w[44][4];
                for (int i = 0; i < 4; i++)
                        memcpy(w[i], key + 4 * i, 4);
                uint8_t rcon = 1;
                for (int i = 4; i < 44; i++) {
                        uint8_t t[4];
                        memcpy(t, w[i - 1], 4);
                        if (i % 4 == 0) {
                                // RotWord, SubWord, Rcon
                                const uint8_t t0 = t[0];
                                t[0] = S[t[1]] ^ rcon;
                                t[1] = S[t[2]];
                                t[2] = S[t[3]];
                                t[3] = S[t0];
                                rcon = gf256_mul(rcon, 2);
                        }
                        for (int j = 0; j < 4; j++)
                                w[i][j] = w[i - 4][j] ^ t[j];
                }
                for (int r = 0; r < 11; r++)
                        for (int c = 0; c < 4; c++)
                                memcpy(&rk[r][4 * c], w[4 * r + c], 4);
        }

        void encrypt_block(const uint8_t in[16], uint8_t out[16]) const
        {
                const uint8_t *S = aes_sbox();
                uint8_t s[16], t[16];
                for (int i = 0; i < 16; i++)
                        s[i] = in[i] ^ rk[0][i];
                for (int r = 1; r <= 9; r++) {
                        aes_enc_round(s, rk[r], t);
                        memcpy(s, t, 16);
                }
                // final round: SubBytes, ShiftRows, AddRoundKey
                for (int c = 0; c < 4; c++)
                        for (int r = 0; r < 4; r++)
                                out[4 * c + r] = S[s[4 * ((c + r) & 3) + r]] ^ rk[10][4 * c + r];
        }
};

// CRC-32 as used for the Ethernet FCS (IEEE 802.3): polynomial 0x04C11DB7, reflected in/out,
// initial value 0xFFFFFFFF, final XOR 0xFFFFFFFF.
uint32_t
crc32_ethernet(const uint8_t *p, size_t n)
{
        uint32_t crc = 0xffffffffu;
        for (size_t i = 0; i < n; i++) {
                crc ^= p[i];
                for (int b = 0; b < 8; b++)
                        crc = (crc & 1) ? (crc >> 1) ^ 0xedb88320u : (crc >> 1);
        }
        return crc ^ 0xffffffffu;
}

void
put_le32(uint8_t *p, uint32_t v)
{
        p[0] = (uint8_t) v;
        p[1] = (uint8_t) (v >> 8);
        p[2] = (uint8_t) (v >> 16);
        p[3] = (uint8_t) (v >> 24);
}

// AES-128-CTR, the 16-byte IV is the first counter block, the counter block is incremented as
// one 128-bit big-endian integer (modulo 2^128)
void
aes128_ctr(const uint8_t key[16], const uint8_t iv[16], uint8_t *buf, size_t len)
{
        const Aes128 aes(key);
        uint8_t ctr[16], ks[16];
        memcpy(ctr, iv, 16);
        for (size_t off = 0; off < len; off += 16) {
                aes.encrypt_block(ctr, ks);
                const size_t n = (len - off < 16) ? (len - off) : 16;
                for (size_t j = 0; j < n; j++)
                        buf[off + j] ^= ks[j];
                for (int j = 15; j >= 0; j--)
                        if (++ctr[j] != 0)
                                break;
        }
}

void
bip32(const uint8_t *p, size_t len, uint8_t out[4]) // len multiple of 4
{
        out[0] = out[1] = out[2] = out[3] = 0;
        for (size_t i = 0; i < len; i++)
                out[i & 3] ^= p[i];
}

} // namespace

// XGEM header HEC (ITU-T G.987.3): the 64-bit header (big-endian) is 51 bits of fields followed
// by a 13-bit HEC = 12 check bits of the BCH(63,12,2) code with generator
// x^12+x^10+x^8+x^5+x^4+x^3+1 computed over the 51 field bits, followed by one parity bit that
// makes the number of ones in the whole 64-bit header even.
void
ref_xgem_hec64(const uint8_t hdr_in[8], uint8_t hdr_out[8])
{
        uint64_t h = 0;
        for (int i = 0; i < 8; i++)
                h = (h << 8) | hdr_in[i];
        const uint64_t fields = h >> 13; // 51 bits

        // remainder of fields(x) * x^12 modulo g(x)
        const uint32_t g = 0x1539; // 1 0101 0011 1001
        uint32_t rem = 0;
        for (int i = 50; i >= 0; i--) {
                rem = (rem << 1) ^ ((uint32_t) ((fields >> i) & 1) << 12);
                if (rem & 0x1000)
                        rem ^= g;
        }
        // rem now holds fields(x)*x^12 mod g(x) in bits 11..0
        uint64_t v = (fields << 13) | ((uint64_t) (rem & 0xfff) << 1);
        unsigned parity = 0;
        for (int i = 0; i < 64; i++)
                parity ^= (unsigned) ((v >> i) & 1);
        v |= parity;
        for (int i = 0; i < 8; i++)
                hdr_out[i] = (uint8_t) (v >> (56 - 8 * i));
}

bool
ref_pon(bool enc, const uint8_t *key16_or_null, const uint8_t iv[16], const uint8_t *frame_in,
        uint8_t *frame_out, size_t frame_len, uint32_t pli, uint8_t tag[8])
{
        if (frame_in == nullptr || frame_out == nullptr || tag == nullptr)
                return false;
        if (frame_len < 8 || (frame_len & 3) != 0 || frame_len > (1u << 14) + 8)
                return false;
        if (pli > 0x3fff || frame_len < 8 + (((size_t) pli + 3) & ~(size_t) 3))
                return false;
        if (key16_or_null != nullptr && iv == nullptr)
                return false;
        // the library takes the PLI from the 14 most significant bits of the header
        if (pli != ((((uint32_t) frame_in[0]) << 8 | frame_in[1]) >> 2))
                return false;

        const size_t payload_len = frame_len - 8; // padded payload: all of it is ciphered

        Bytes f(frame_in, frame_in + frame_len);
        uint8_t *payload = f.data() + 8;
        uint32_t crc = 0; // PLI <= 4: no CRC is computed; CRC-32 of zero bytes (= 0) is reported

        if (enc) {
                // 1. HEC of the XGEM header is (re)computed and stored
                ref_xgem_hec64(f.data(), f.data());
                // 2. Ethernet FCS over the first PLI-4 payload bytes, stored (as an Ethernet
                //    FCS is: least significant byte first) in payload bytes PLI-4 .. PLI-1
                if (pli > 4) {
                        crc = crc32_ethernet(payload, pli - 4);
                        put_le32(payload + pli - 4, crc);
                }
                // 3. AES-128-CTR over the padded payload
                if (key16_or_null != nullptr)
                        aes128_ctr(key16_or_null, iv, payload, payload_len);
                // 4. BIP over the frame as transmitted (header + ciphertext)
                bip32(f.data(), frame_len, tag);
        } else {
                // 1. BIP over the frame as received (header + ciphertext)
                bip32(f.data(), frame_len, tag);
                // 2. AES-128-CTR over the padded payload
                if (key16_or_null != nullptr)
                        aes128_ctr(key16_or_null, iv, payload, payload_len);
                // 3. Ethernet FCS computed over the first PLI-4 bytes of the plaintext; it is
                //    only reported, the frame keeps the received (decrypted) FCS field
                if (pli > 4)
                        crc = crc32_ethernet(payload, pli - 4);
        }
        put_le32(tag + 4, crc);
        memcpy(frame_out, f.data(), frame_len);
        return true;
}

// Textbook reference implementations used as an oracle:
//   SNOW-V, SNOW-V-AEAD (SNOW-V-GCM)  -- Ekdahl, Johansson, Maximov, Yang 2019
//   PON (XGEM) AES-128-CTR + CRC32 + BIP32 combined operation
#ifndef SNOWV_PON_H
#define SNOWV_PON_H

#include <cstddef>
#include <cstdint>
#include <vector>

typedef std::vector<uint8_t> Bytes;

// out = in XOR keystream (in may be nullptr only when len == 0; in == out is allowed)
bool ref_snow_v(const uint8_t key[32], const uint8_t iv[16], const uint8_t *in, uint8_t *out,
                size_t len);

// enc == true : in = plaintext,  out = ciphertext, tag computed over AAD and ciphertext (out)
// enc == false: in = ciphertext, out = plaintext,  tag computed over AAD and ciphertext (in)
// The tag is only produced, never compared.
bool ref_snow_v_aead(bool enc, const uint8_t key[32], const uint8_t iv[16], const uint8_t *aad,
                     size_t aad_len, const uint8_t *in, uint8_t *out, size_t len,
                     uint8_t tag[16]);

// PON (XGEM frame = 8-byte header + padded payload), see NOTES.md.
// frame_len: multiple of 4, >= 8 + ((pli + 3) & ~3)  (normally equal; the kat vectors with
//            PLI < 8 pad the payload to 8 bytes, which is accepted as well), <= 2^14 + 8.
// pli      : must equal the 14 most significant bits of the header (the library reads it there).
// key16_or_null == nullptr means "no encryption" (iv is then ignored and may be nullptr).
// frame_out: the whole frame afterwards (may alias frame_in).
//            encrypt: header with its 13-bit HEC RECOMPUTED (unchanged if it was valid), CRC
//            inserted at payload[pli-4..pli-1] when pli > 4, whole padded payload ciphered.
//            decrypt: header unchanged, whole padded payload deciphered, nothing else changed.
// tag[0..3]: BIP = XOR of all 4-byte words of the frame as transmitted (header + ciphertext),
//            bytes in memory order (the library's uint32 BIP value is the little-endian load).
// tag[4..7]: CRC-32 (Ethernet FCS) of payload[0..pli-5] (plaintext), least significant byte
//            first, exactly as it is stored in the frame; for pli <= 4 UNSPECIFIED by the
//            library - the reference returns 00 00 00 00 (CRC-32 of no bytes).
bool ref_pon(bool enc, const uint8_t *key16_or_null, const uint8_t iv[16],
             const uint8_t *frame_in, uint8_t *frame_out, size_t frame_len, uint32_t pli,
             uint8_t tag[8]);

// XGEM header HEC (ITU-T G.987.3 BCH(63,12,2) check bits + even parity bit) recomputed over the
// 51 most significant bits of the 8-byte header; hdr_out may alias hdr_in.
void ref_xgem_hec64(const uint8_t hdr_in[8], uint8_t hdr_out[8]);

#endif

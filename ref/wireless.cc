#include "wireless.h"
// stubs until the hand-written implementations are admitted against the standard vectors
bool ref_zuc_eea3(const uint8_t *, const uint8_t *, const uint8_t *, uint8_t *, size_t) { return false; }
bool ref_zuc256_eea3(const uint8_t *, const uint8_t *, size_t, const uint8_t *, uint8_t *, size_t) { return false; }
bool ref_zuc_eia3(const uint8_t *, const uint8_t *, const uint8_t *, uint32_t, Bytes &) { return false; }
bool ref_zuc256_eia3(const uint8_t *, const uint8_t *, size_t, const uint8_t *, uint32_t, size_t, Bytes &) { return false; }
bool ref_snow3g_f8_keystream(const uint8_t *, const uint8_t *, uint8_t *, size_t) { return false; }
bool ref_snow3g_uia2(const uint8_t *, const uint8_t *, const uint8_t *, uint32_t, Bytes &) { return false; }
bool ref_kasumi_f8_keystream(const uint8_t *, const uint8_t *, uint8_t *, size_t) { return false; }
bool ref_kasumi_f9_user(const uint8_t *, const uint8_t *, size_t, Bytes &) { return false; }

// wireless.cc - independent reference implementations (oracle) of
//   ZUC-128 (128-EEA3 / 128-EIA3), ZUC-256 (cipher / MAC 32,64,128),
//   SNOW 3G (UEA2 / UIA2), KASUMI (f8 / f9)
// written from the published ETSI/SAGE / 3GPP specifications.
// Plain scalar C++17; clarity over speed. See NOTES.md for byte-layout facts.
#include "wireless.h"

// ===========================================================================
// Published constant tables
//   ZUC S0 / S1        : ZUC specification v1.6, section 3.4.2 (tables 3.1 / 3.2)
//   SNOW 3G SR / SQ    : SNOW 3G specification, section 3.3 (SR = Rijndael S-box, SQ Dickson)
//   KASUMI S7 / S9     : TS 35.202, section 4.5
// The self-test validates each of them structurally and with the official vectors.
// ===========================================================================
// Declared here as well (the self-test uses them) so that this file does not depend on the
// including header providing these declarations.
extern const uint8_t ref_zuc_S0[256];
extern const uint8_t ref_zuc_S1[256];
extern const uint8_t ref_snow3g_SR[256];
extern const uint8_t ref_snow3g_SQ[256];
extern const uint8_t ref_kasumi_S7[128];
extern const uint16_t ref_kasumi_S9[512];
uint64_t ref_kasumi_block(const uint8_t key[16], uint64_t in);

const uint8_t ref_zuc_S0[256] = {
    0x3E, 0x72, 0x5B, 0x47, 0xCA, 0xE0, 0x00, 0x33, 0x04, 0xD1, 0x54, 0x98, 0x09, 0xB9, 0x6D, 0xCB,
    0x7B, 0x1B, 0xF9, 0x32, 0xAF, 0x9D, 0x6A, 0xA5, 0xB8, 0x2D, 0xFC, 0x1D, 0x08, 0x53, 0x03, 0x90,
    0x4D, 0x4E, 0x84, 0x99, 0xE4, 0xCE, 0xD9, 0x91, 0xDD, 0xB6, 0x85, 0x48, 0x8B, 0x29, 0x6E, 0xAC,
    0xCD, 0xC1, 0xF8, 0x1E, 0x73, 0x43, 0x69, 0xC6, 0xB5, 0xBD, 0xFD, 0x39, 0x63, 0x20, 0xD4, 0x38,
    0x76, 0x7D, 0xB2, 0xA7, 0xCF, 0xED, 0x57, 0xC5, 0xF3, 0x2C, 0xBB, 0x14, 0x21, 0x06, 0x55, 0x9B,
    0xE3, 0xEF, 0x5E, 0x31, 0x4F, 0x7F, 0x5A, 0xA4, 0x0D, 0x82, 0x51, 0x49, 0x5F, 0xBA, 0x58, 0x1C,
    0x4A, 0x16, 0xD5, 0x17, 0xA8, 0x92, 0x24, 0x1F, 0x8C, 0xFF, 0xD8, 0xAE, 0x2E, 0x01, 0xD3, 0xAD,
    0x3B, 0x4B, 0xDA, 0x46, 0xEB, 0xC9, 0xDE, 0x9A, 0x8F, 0x87, 0xD7, 0x3A, 0x80, 0x6F, 0x2F, 0xC8,
    0xB1, 0xB4, 0x37, 0xF7, 0x0A, 0x22, 0x13, 0x28, 0x7C, 0xCC, 0x3C, 0x89, 0xC7, 0xC3, 0x96, 0x56,
    0x07, 0xBF, 0x7E, 0xF0, 0x0B, 0x2B, 0x97, 0x52, 0x35, 0x41, 0x79, 0x61, 0xA6, 0x4C, 0x10, 0xFE,
    0xBC, 0x26, 0x95, 0x88, 0x8A, 0xB0, 0xA3, 0xFB, 0xC0, 0x18, 0x94, 0xF2, 0xE1, 0xE5, 0xE9, 0x5D,
    0xD0, 0xDC, 0x11, 0x66, 0x64, 0x5C, 0xEC, 0x59, 0x42, 0x75, 0x12, 0xF5, 0x74, 0x9C, 0xAA, 0x23,
    0x0E, 0x86, 0xAB, 0xBE, 0x2A, 0x02, 0xE7, 0x67, 0xE6, 0x44, 0xA2, 0x6C, 0xC2, 0x93, 0x9F, 0xF1,
    0xF6, 0xFA, 0x36, 0xD2, 0x50, 0x68, 0x9E, 0x62, 0x71, 0x15, 0x3D, 0xD6, 0x40, 0xC4, 0xE2, 0x0F,
    0x8E, 0x83, 0x77, 0x6B, 0x25, 0x05, 0x3F, 0x0C, 0x30, 0xEA, 0x70, 0xB7, 0xA1, 0xE8, 0xA9, 0x65,
    0x8D, 0x27, 0x1A, 0xDB, 0x81, 0xB3, 0xA0, 0xF4, 0x45, 0x7A, 0x19, 0xDF, 0xEE, 0x78, 0x34, 0x60
};

const uint8_t ref_zuc_S1[256] = {
    0x55, 0xC2, 0x63, 0x71, 0x3B, 0xC8, 0x47, 0x86, 0x9F, 0x3C, 0xDA, 0x5B, 0x29, 0xAA, 0xFD, 0x77,
    0x8C, 0xC5, 0x94, 0x0C, 0xA6, 0x1A, 0x13, 0x00, 0xE3, 0xA8, 0x16, 0x72, 0x40, 0xF9, 0xF8, 0x42,
    0x44, 0x26, 0x68, 0x96, 0x81, 0xD9, 0x45, 0x3E, 0x10, 0x76, 0xC6, 0xA7, 0x8B, 0x39, 0x43, 0xE1,
    0x3A, 0xB5, 0x56, 0x2A, 0xC0, 0x6D, 0xB3, 0x05, 0x22, 0x66, 0xBF, 0xDC, 0x0B, 0xFA, 0x62, 0x48,
    0xDD, 0x20, 0x11, 0x06, 0x36, 0xC9, 0xC1, 0xCF, 0xF6, 0x27, 0x52, 0xBB, 0x69, 0xF5, 0xD4, 0x87,
    0x7F, 0x84, 0x4C, 0xD2, 0x9C, 0x57, 0xA4, 0xBC, 0x4F, 0x9A, 0xDF, 0xFE, 0xD6, 0x8D, 0x7A, 0xEB,
    0x2B, 0x53, 0xD8, 0x5C, 0xA1, 0x14, 0x17, 0xFB, 0x23, 0xD5, 0x7D, 0x30, 0x67, 0x73, 0x08, 0x09,
    0xEE, 0xB7, 0x70, 0x3F, 0x61, 0xB2, 0x19, 0x8E, 0x4E, 0xE5, 0x4B, 0x93, 0x8F, 0x5D, 0xDB, 0xA9,
    0xAD, 0xF1, 0xAE, 0x2E, 0xCB, 0x0D, 0xFC, 0xF4, 0x2D, 0x46, 0x6E, 0x1D, 0x97, 0xE8, 0xD1, 0xE9,
    0x4D, 0x37, 0xA5, 0x75, 0x5E, 0x83, 0x9E, 0xAB, 0x82, 0x9D, 0xB9, 0x1C, 0xE0, 0xCD, 0x49, 0x89,
    0x01, 0xB6, 0xBD, 0x58, 0x24, 0xA2, 0x5F, 0x38, 0x78, 0x99, 0x15, 0x90, 0x50, 0xB8, 0x95, 0xE4,
    0xD0, 0x91, 0xC7, 0xCE, 0xED, 0x0F, 0xB4, 0x6F, 0xA0, 0xCC, 0xF0, 0x02, 0x4A, 0x79, 0xC3, 0xDE,
    0xA3, 0xEF, 0xEA, 0x51, 0xE6, 0x6B, 0x18, 0xEC, 0x1B, 0x2C, 0x80, 0xF7, 0x74, 0xE7, 0xFF, 0x21,
    0x5A, 0x6A, 0x54, 0x1E, 0x41, 0x31, 0x92, 0x35, 0xC4, 0x33, 0x07, 0x0A, 0xBA, 0x7E, 0x0E, 0x34,
    0x88, 0xB1, 0x98, 0x7C, 0xF3, 0x3D, 0x60, 0x6C, 0x7B, 0xCA, 0xD3, 0x1F, 0x32, 0x65, 0x04, 0x28,
    0x64, 0xBE, 0x85, 0x9B, 0x2F, 0x59, 0x8A, 0xD7, 0xB0, 0x25, 0xAC, 0xAF, 0x12, 0x03, 0xE2, 0xF2
};

const uint8_t ref_snow3g_SR[256] = {
    0x63, 0x7C, 0x77, 0x7B, 0xF2, 0x6B, 0x6F, 0xC5, 0x30, 0x01, 0x67, 0x2B, 0xFE, 0xD7, 0xAB, 0x76,
    0xCA, 0x82, 0xC9, 0x7D, 0xFA, 0x59, 0x47, 0xF0, 0xAD, 0xD4, 0xA2, 0xAF, 0x9C, 0xA4, 0x72, 0xC0,
    0xB7, 0xFD, 0x93, 0x26, 0x36, 0x3F, 0xF7, 0xCC, 0x34, 0xA5, 0xE5, 0xF1, 0x71, 0xD8, 0x31, 0x15,
    0x04, 0xC7, 0x23, 0xC3, 0x18, 0x96, 0x05, 0x9A, 0x07, 0x12, 0x80, 0xE2, 0xEB, 0x27, 0xB2, 0x75,
    0x09, 0x83, 0x2C, 0x1A, 0x1B, 0x6E, 0x5A, 0xA0, 0x52, 0x3B, 0xD6, 0xB3, 0x29, 0xE3, 0x2F, 0x84,
    0x53, 0xD1, 0x00, 0xED, 0x20, 0xFC, 0xB1, 0x5B, 0x6A, 0xCB, 0xBE, 0x39, 0x4A, 0x4C, 0x58, 0xCF,
    0xD0, 0xEF, 0xAA, 0xFB, 0x43, 0x4D, 0x33, 0x85, 0x45, 0xF9, 0x02, 0x7F, 0x50, 0x3C, 0x9F, 0xA8,
    0x51, 0xA3, 0x40, 0x8F, 0x92, 0x9D, 0x38, 0xF5, 0xBC, 0xB6, 0xDA, 0x21, 0x10, 0xFF, 0xF3, 0xD2,
    0xCD, 0x0C, 0x13, 0xEC, 0x5F, 0x97, 0x44, 0x17, 0xC4, 0xA7, 0x7E, 0x3D, 0x64, 0x5D, 0x19, 0x73,
    0x60, 0x81, 0x4F, 0xDC, 0x22, 0x2A, 0x90, 0x88, 0x46, 0xEE, 0xB8, 0x14, 0xDE, 0x5E, 0x0B, 0xDB,
    0xE0, 0x32, 0x3A, 0x0A, 0x49, 0x06, 0x24, 0x5C, 0xC2, 0xD3, 0xAC, 0x62, 0x91, 0x95, 0xE4, 0x79,
    0xE7, 0xC8, 0x37, 0x6D, 0x8D, 0xD5, 0x4E, 0xA9, 0x6C, 0x56, 0xF4, 0xEA, 0x65, 0x7A, 0xAE, 0x08,
    0xBA, 0x78, 0x25, 0x2E, 0x1C, 0xA6, 0xB4, 0xC6, 0xE8, 0xDD, 0x74, 0x1F, 0x4B, 0xBD, 0x8B, 0x8A,
    0x70, 0x3E, 0xB5, 0x66, 0x48, 0x03, 0xF6, 0x0E, 0x61, 0x35, 0x57, 0xB9, 0x86, 0xC1, 0x1D, 0x9E,
    0xE1, 0xF8, 0x98, 0x11, 0x69, 0xD9, 0x8E, 0x94, 0x9B, 0x1E, 0x87, 0xE9, 0xCE, 0x55, 0x28, 0xDF,
    0x8C, 0xA1, 0x89, 0x0D, 0xBF, 0xE6, 0x42, 0x68, 0x41, 0x99, 0x2D, 0x0F, 0xB0, 0x54, 0xBB, 0x16
};

const uint8_t ref_snow3g_SQ[256] = {
    0x25, 0x24, 0x73, 0x67, 0xD7, 0xAE, 0x5C, 0x30, 0xA4, 0xEE, 0x6E, 0xCB, 0x7D, 0xB5, 0x82, 0xDB,
    0xE4, 0x8E, 0x48, 0x49, 0x4F, 0x5D, 0x6A, 0x78, 0x70, 0x88, 0xE8, 0x5F, 0x5E, 0x84, 0x65, 0xE2,
    0xD8, 0xE9, 0xCC, 0xED, 0x40, 0x2F, 0x11, 0x28, 0x57, 0xD2, 0xAC, 0xE3, 0x4A, 0x15, 0x1B, 0xB9,
    0xB2, 0x80, 0x85, 0xA6, 0x2E, 0x02, 0x47, 0x29, 0x07, 0x4B, 0x0E, 0xC1, 0x51, 0xAA, 0x89, 0xD4,
    0xCA, 0x01, 0x46, 0xB3, 0xEF, 0xDD, 0x44, 0x7B, 0xC2, 0x7F, 0xBE, 0xC3, 0x9F, 0x20, 0x4C, 0x64,
    0x83, 0xA2, 0x68, 0x42, 0x13, 0xB4, 0x41, 0xCD, 0xBA, 0xC6, 0xBB, 0x6D, 0x4D, 0x71, 0x21, 0xF4,
    0x8D, 0xB0, 0xE5, 0x93, 0xFE, 0x8F, 0xE6, 0xCF, 0x43, 0x45, 0x31, 0x22, 0x37, 0x36, 0x96, 0xFA,
    0xBC, 0x0F, 0x08, 0x52, 0x1D, 0x55, 0x1A, 0xC5, 0x4E, 0x23, 0x69, 0x7A, 0x92, 0xFF, 0x5B, 0x5A,
    0xEB, 0x9A, 0x1C, 0xA9, 0xD1, 0x7E, 0x0D, 0xFC, 0x50, 0x8A, 0xB6, 0x62, 0xF5, 0x0A, 0xF8, 0xDC,
    0x03, 0x3C, 0x0C, 0x39, 0xF1, 0xB8, 0xF3, 0x3D, 0xF2, 0xD5, 0x97, 0x66, 0x81, 0x32, 0xA0, 0x00,
    0x06, 0xCE, 0xF6, 0xEA, 0xB7, 0x17, 0xF7, 0x8C, 0x79, 0xD6, 0xA7, 0xBF, 0x8B, 0x3F, 0x1F, 0x53,
    0x63, 0x75, 0x35, 0x2C, 0x60, 0xFD, 0x27, 0xD3, 0x94, 0xA5, 0x7C, 0xA1, 0x05, 0x58, 0x2D, 0xBD,
    0xD9, 0xC7, 0xAF, 0x6B, 0x54, 0x0B, 0xE0, 0x38, 0x04, 0xC8, 0x9D, 0xE7, 0x14, 0xB1, 0x87, 0x9C,
    0xDF, 0x6F, 0xF9, 0xDA, 0x2A, 0xC4, 0x59, 0x16, 0x74, 0x91, 0xAB, 0x26, 0x61, 0x76, 0x34, 0x2B,
    0xAD, 0x99, 0xFB, 0x72, 0xEC, 0x33, 0x12, 0xDE, 0x98, 0x3B, 0xC0, 0x9B, 0x3E, 0x18, 0x10, 0x3A,
    0x56, 0xE1, 0x77, 0xC9, 0x1E, 0x9E, 0x95, 0xA3, 0x90, 0x19, 0xA8, 0x6C, 0x09, 0xD0, 0xF0, 0x86
};

const uint8_t ref_kasumi_S7[128] = {
     54,  50,  62,  56,  22,  34,  94,  96,  38,   6,  63,  93,   2,  18, 123,  33,
     55, 113,  39, 114,  21,  67,  65,  12,  47,  73,  46,  27,  25, 111, 124,  81,
     53,   9, 121,  79,  52,  60,  58,  48, 101, 127,  40, 120, 104,  70,  71,  43,
     20, 122,  72,  61,  23, 109,  13, 100,  77,   1,  16,   7,  82,  10, 105,  98,
    117, 116,  76,  11,  89, 106,   0, 125, 118,  99,  86,  69,  30,  57, 126,  87,
    112,  51,  17,   5,  95,  14,  90,  84,  91,   8,  35, 103,  32,  97,  28,  66,
    102,  31,  26,  45,  75,   4,  85,  92,  37,  74,  80,  49,  68,  29, 115,  44,
     64, 107, 108,  24, 110,  83,  36,  78,  42,  19,  15,  41,  88, 119,  59,   3
};

const uint16_t ref_kasumi_S9[512] = {
    167, 239, 161, 379, 391, 334,   9, 338,  38, 226,  48, 358, 452, 385,  90, 397,
    183, 253, 147, 331, 415, 340,  51, 362, 306, 500, 262,  82, 216, 159, 356, 177,
    175, 241, 489,  37, 206,  17,   0, 333,  44, 254, 378,  58, 143, 220,  81, 400,
     95,   3, 315, 245,  54, 235, 218, 405, 472, 264, 172, 494, 371, 290, 399,  76,
    165, 197, 395, 121, 257, 480, 423, 212, 240,  28, 462, 176, 406, 507, 288, 223,
    501, 407, 249, 265,  89, 186, 221, 428, 164,  74, 440, 196, 458, 421, 350, 163,
    232, 158, 134, 354,  13, 250, 491, 142, 191,  69, 193, 425, 152, 227, 366, 135,
    344, 300, 276, 242, 437, 320, 113, 278,  11, 243,  87, 317,  36,  93, 496,  27,
    487, 446, 482,  41,  68, 156, 457, 131, 326, 403, 339,  20,  39, 115, 442, 124,
    475, 384, 508,  53, 112, 170, 479, 151, 126, 169,  73, 268, 279, 321, 168, 364,
    363, 292,  46, 499, 393, 327, 324,  24, 456, 267, 157, 460, 488, 426, 309, 229,
    439, 506, 208, 271, 349, 401, 434, 236,  16, 209, 359,  52,  56, 120, 199, 277,
    465, 416, 252, 287, 246,   6,  83, 305, 420, 345, 153, 502,  65,  61, 244, 282,
    173, 222, 418,  67, 386, 368, 261, 101, 476, 291, 195, 430,  49,  79, 166, 330,
    280, 383, 373, 128, 382, 408, 155, 495, 367, 388, 274, 107, 459, 417,  62, 454,
    132, 225, 203, 316, 234,  14, 301,  91, 503, 286, 424, 211, 347, 307, 140, 374,
     35, 103, 125, 427,  19, 214, 453, 146, 498, 314, 444, 230, 256, 329, 198, 285,
     50, 116,  78, 410,  10, 205, 510, 171, 231,  45, 139, 467,  29,  86, 505,  32,
     72,  26, 342, 150, 313, 490, 431, 238, 411, 325, 149, 473,  40, 119, 174, 355,
    185, 233, 389,  71, 448, 273, 372,  55, 110, 178, 322,  12, 469, 392, 369, 190,
      1, 109, 375, 137, 181,  88,  75, 308, 260, 484,  98, 272, 370, 275, 412, 111,
    336, 318,   4, 504, 492, 259, 304,  77, 337, 435,  21, 357, 303, 332, 483,  18,
     47,  85,  25, 497, 474, 289, 100, 269, 296, 478, 270, 106,  31, 104, 433,  84,
    414, 486, 394,  96,  99, 154, 511, 148, 413, 361, 409, 255, 162, 215, 302, 201,
    266, 351, 343, 144, 441, 365, 108, 298, 251,  34, 182, 509, 138, 210, 335, 133,
    311, 352, 328, 141, 396, 346, 123, 319, 450, 281, 429, 228, 443, 481,  92, 404,
    485, 422, 248, 297,  23, 213, 130, 466,  22, 217, 283,  70, 294, 360, 419, 127,
    312, 377,   7, 468, 194,   2, 117, 295, 463, 258, 224, 447, 247, 187,  80, 398,
    284, 353, 105, 390, 299, 471, 470, 184,  57, 200, 348,  63, 204, 188,  33, 451,
     97,  30, 310, 219,  94, 160, 129, 493,  64, 179, 263, 102, 189, 207, 114, 402,
    438, 477, 387, 122, 192,  42, 381,   5, 145, 118, 180, 449, 293, 323, 136, 380,
     43,  66,  60, 455, 341, 445, 202, 432,   8, 237,  15, 376, 436, 464,  59, 461
};

// ===========================================================================
// Small helpers
// ===========================================================================
static inline uint32_t be32(const uint8_t *p)
{
        return ((uint32_t) p[0] << 24) | ((uint32_t) p[1] << 16) | ((uint32_t) p[2] << 8) | p[3];
}
static inline void put_be32(uint8_t *p, uint32_t v)
{
        p[0] = (uint8_t) (v >> 24);
        p[1] = (uint8_t) (v >> 16);
        p[2] = (uint8_t) (v >> 8);
        p[3] = (uint8_t) v;
}
static inline uint32_t rol32(uint32_t v, unsigned r) { return (v << r) | (v >> (32 - r)); }
static inline uint16_t rol16(uint16_t v, unsigned r)
{
        return (uint16_t) ((v << r) | (v >> (16 - r)));
}
// bit i (0 = most significant bit of byte 0) of a message
static inline unsigned msg_bit(const uint8_t *m, uint64_t i) { return (m[i >> 3] >> (7 - (i & 7))) & 1; }

// ===========================================================================
// ZUC (ETSI/SAGE "Specification of the 3GPP Confidentiality and Integrity
// Algorithms 128-EEA3 & 128-EIA3, Document 2: ZUC Specification", v1.6) and
// ZUC-256 ("The ZUC-256 Stream Cipher" + "A new initialization scheme" MAC sizes)
// ===========================================================================
namespace
{

struct Zuc {
        uint32_t s[16]; // 31-bit LFSR cells
        uint32_t R1, R2;
        uint32_t X[4];

        static uint32_t add31(uint32_t a, uint32_t b) // a + b mod (2^31 - 1)
        {
                uint32_t c = a + b;
                return (c & 0x7FFFFFFF) + (c >> 31);
        }
        static uint32_t mul2k(uint32_t a, unsigned k) // a * 2^k mod (2^31 - 1) = 31-bit rotate
        {
                return ((a << k) | (a >> (31 - k))) & 0x7FFFFFFF;
        }
        uint32_t lfsr_v() const
        {
                uint32_t v = s[0];
                v = add31(v, mul2k(s[0], 8));
                v = add31(v, mul2k(s[4], 20));
                v = add31(v, mul2k(s[10], 21));
                v = add31(v, mul2k(s[13], 17));
                v = add31(v, mul2k(s[15], 15));
                return v;
        }
        void shift_in(uint32_t s16)
        {
                if (s16 == 0)
                        s16 = 0x7FFFFFFF;
                for (int i = 0; i < 15; i++)
                        s[i] = s[i + 1];
                s[15] = s16;
        }
        void lfsr_init_mode(uint32_t u) { shift_in(add31(lfsr_v(), u)); }
        void lfsr_work_mode() { shift_in(lfsr_v()); }

        void bit_reorg()
        {
                X[0] = ((s[15] & 0x7FFF8000) << 1) | (s[14] & 0xFFFF);
                X[1] = ((s[11] & 0xFFFF) << 16) | (s[9] >> 15);
                X[2] = ((s[7] & 0xFFFF) << 16) | (s[5] >> 15);
                X[3] = ((s[2] & 0xFFFF) << 16) | (s[0] >> 15);
        }
        static uint32_t L1(uint32_t x)
        {
                return x ^ rol32(x, 2) ^ rol32(x, 10) ^ rol32(x, 18) ^ rol32(x, 24);
        }
        static uint32_t L2(uint32_t x)
        {
                return x ^ rol32(x, 8) ^ rol32(x, 14) ^ rol32(x, 22) ^ rol32(x, 30);
        }
        static uint32_t S(uint32_t x)
        {
                return ((uint32_t) ref_zuc_S0[x >> 24] << 24) |
                       ((uint32_t) ref_zuc_S1[(x >> 16) & 0xFF] << 16) |
                       ((uint32_t) ref_zuc_S0[(x >> 8) & 0xFF] << 8) |
                       (uint32_t) ref_zuc_S1[x & 0xFF];
        }
        uint32_t F()
        {
                const uint32_t W = (X[0] ^ R1) + R2;
                const uint32_t W1 = R1 + X[1];
                const uint32_t W2 = R2 ^ X[2];
                R1 = S(L1((W1 << 16) | (W2 >> 16)));
                R2 = S(L2((W2 << 16) | (W1 >> 16)));
                return W;
        }
        // common initialisation stage once the LFSR has been loaded
        void run_init()
        {
                R1 = R2 = 0;
                for (int i = 0; i < 32; i++) {
                        bit_reorg();
                        const uint32_t W = F();
                        lfsr_init_mode(W >> 1);
                }
                bit_reorg();
                (void) F(); // output discarded
                lfsr_work_mode();
        }
        uint32_t next_word()
        {
                bit_reorg();
                const uint32_t Z = F() ^ X[3];
                lfsr_work_mode();
                return Z;
        }

        void init128(const uint8_t k[16], const uint8_t iv[16])
        {
                static const uint16_t D[16] = { 0x44D7, 0x26BC, 0x626B, 0x135E, 0x5789, 0x35E2,
                                                0x7135, 0x09AF, 0x4D78, 0x2F13, 0x6BC4, 0x1AF1,
                                                0x5E26, 0x3C4D, 0x789A, 0x47AC };
                for (int i = 0; i < 16; i++)
                        s[i] = ((uint32_t) k[i] << 23) | ((uint32_t) D[i] << 8) | iv[i];
                run_init();
        }

        // tag_len: 0 = keystream (cipher), 4 / 8 / 16 = MAC of that many bytes.
        // IV[0..16] are 8-bit values, IV[17..24] are 6-bit values.
        void init256(const uint8_t K[32], const uint8_t IV[25], size_t tag_len)
        {
                static const uint8_t D_ENC[16] = { 0x22, 0x2F, 0x24, 0x2A, 0x6D, 0x40, 0x40, 0x40,
                                                   0x40, 0x40, 0x40, 0x40, 0x40, 0x52, 0x10, 0x30 };
                static const uint8_t D_MAC32[16] = { 0x22, 0x2F, 0x25, 0x2A, 0x6D, 0x40, 0x40, 0x40,
                                                     0x40, 0x40, 0x40, 0x40, 0x40, 0x52, 0x10, 0x30 };
                static const uint8_t D_MAC64[16] = { 0x23, 0x2F, 0x24, 0x2A, 0x6D, 0x40, 0x40, 0x40,
                                                     0x40, 0x40, 0x40, 0x40, 0x40, 0x52, 0x10, 0x30 };
                static const uint8_t D_MAC128[16] = { 0x23, 0x2F, 0x25, 0x2A, 0x6D, 0x40, 0x40,
                                                      0x40, 0x40, 0x40, 0x40, 0x40, 0x40, 0x52,
                                                      0x10, 0x30 };
                const uint8_t *d = tag_len == 4    ? D_MAC32
                                   : tag_len == 8  ? D_MAC64
                                   : tag_len == 16 ? D_MAC128
                                                   : D_ENC;
                // a | b | c | e  with sizes 8 | 7 | 8 | 8 bits
                auto mk = [](uint32_t a, uint32_t b, uint32_t c, uint32_t e) -> uint32_t {
                        return (a << 23) | ((b & 0x7F) << 16) | (c << 8) | e;
                };
                s[0] = mk(K[0], d[0], K[21], K[16]);
                s[1] = mk(K[1], d[1], K[22], K[17]);
                s[2] = mk(K[2], d[2], K[23], K[18]);
                s[3] = mk(K[3], d[3], K[24], K[19]);
                s[4] = mk(K[4], d[4], K[25], K[20]);
                s[5] = mk(IV[0], d[5] | IV[17], K[5], K[26]);
                s[6] = mk(IV[1], d[6] | IV[18], K[6], K[27]);
                s[7] = mk(IV[10], d[7] | IV[19], K[7], IV[2]);
                s[8] = mk(K[8], d[8] | IV[20], IV[3], IV[11]);
                s[9] = mk(K[9], d[9] | IV[21], IV[12], IV[4]);
                s[10] = mk(IV[5], d[10] | IV[22], K[10], K[28]);
                s[11] = mk(K[11], d[11] | IV[23], IV[6], IV[13]);
                s[12] = mk(K[12], d[12] | IV[24], IV[7], IV[14]);
                s[13] = mk(K[13], d[13], IV[15], IV[8]);
                s[14] = mk(K[14], d[14] | (K[31] >> 4), IV[16], IV[9]);
                s[15] = mk(K[15], d[15] | (K[31] & 0x0F), K[30], K[29]);
                run_init();
        }
};

// Bring either form of the ZUC-256 IV to 25 elements (17 bytes + 8 six-bit values).
bool zuc256_unpack_iv(const uint8_t *iv, size_t iv_len, uint8_t out[25])
{
        if (iv_len == 25) {
                for (int i = 0; i < 17; i++)
                        out[i] = iv[i];
                for (int i = 17; i < 25; i++)
                        out[i] = iv[i] & 0x3F; // only 6 bits are defined
                return true;
        }
        if (iv_len == 23) {
                for (int i = 0; i < 17; i++)
                        out[i] = iv[i];
                // 48 bits, most significant first, cut into eight 6-bit values
                uint64_t v = 0;
                for (int i = 17; i < 23; i++)
                        v = (v << 8) | iv[i];
                for (int i = 0; i < 8; i++)
                        out[17 + i] = (uint8_t) ((v >> (42 - 6 * i)) & 0x3F);
                return true;
        }
        return false;
}

void xor_keystream(Zuc &z, const uint8_t *in, uint8_t *out, size_t len)
{
        size_t i = 0;
        while (i < len) {
                uint8_t w[4];
                put_be32(w, z.next_word());
                for (int j = 0; j < 4 && i < len; j++, i++)
                        out[i] = in[i] ^ w[j];
        }
}

// 32-bit window of the keystream word array starting at bit position `pos`
inline uint32_t ks_window32(const std::vector<uint32_t> &z, uint64_t pos)
{
        const size_t w = (size_t) (pos >> 5);
        const unsigned r = (unsigned) (pos & 31);
        if (r == 0)
                return z[w];
        return (z[w] << r) | (z[w + 1] >> (32 - r));
}

} // namespace

bool ref_zuc_eea3(const uint8_t key[16], const uint8_t iv[16], const uint8_t *in, uint8_t *out,
                  size_t len)
{
        Zuc z;
        z.init128(key, iv);
        xor_keystream(z, in, out, len);
        return true;
}

bool ref_zuc256_eea3(const uint8_t key[32], const uint8_t *iv, size_t iv_len, const uint8_t *in,
                     uint8_t *out, size_t len)
{
        uint8_t iv25[25];
        if (!zuc256_unpack_iv(iv, iv_len, iv25))
                return true; // admitted, nothing defined to compute
        Zuc z;
        z.init256(key, iv25, 0);
        xor_keystream(z, in, out, len);
        return true;
}

// 128-EIA3 (Document 1, v1.6 and later: T accumulates z_i windows, i = bit index)
bool ref_zuc_eia3(const uint8_t key[16], const uint8_t iv[16], const uint8_t *msg, uint32_t bits,
                  Bytes &tag)
{
        Zuc z;
        z.init128(key, iv);
        const uint64_t LENGTH = bits;
        const size_t L = (size_t) ((LENGTH + 31) / 32) + 2;
        std::vector<uint32_t> ks(L + 1); // one spare word so that every window read is in range
        for (size_t i = 0; i < L; i++)
                ks[i] = z.next_word();
        ks[L] = 0;
        uint32_t T = 0;
        for (uint64_t i = 0; i < LENGTH; i++)
                if (msg_bit(msg, i))
                        T ^= ks_window32(ks, i);
        T ^= ks_window32(ks, LENGTH);
        T ^= ks[L - 1];
        tag.assign(4, 0);
        put_be32(tag.data(), T);
        return true;
}

bool ref_zuc256_eia3(const uint8_t key[32], const uint8_t *iv, size_t iv_len, const uint8_t *msg,
                     uint32_t bits, size_t tag_len, Bytes &tag)
{
        tag.clear();
        uint8_t iv25[25];
        if (!zuc256_unpack_iv(iv, iv_len, iv25))
                return true;
        if (tag_len != 4 && tag_len != 8 && tag_len != 16)
                return true;
        Zuc z;
        z.init256(key, iv25, tag_len);
        const size_t tw = tag_len / 4;  // tag size in words
        const uint64_t t = tag_len * 8; // tag size in bits
        const uint64_t LENGTH = bits;
        // keystream needed: bits [0, t) initial tag, windows start at t + i, i = 0..LENGTH,
        // each t bits long -> up to bit 2t + LENGTH
        const size_t L = (size_t) ((2 * t + LENGTH + 31) / 32);
        std::vector<uint32_t> ks(L + 1);
        for (size_t i = 0; i < L; i++)
                ks[i] = z.next_word();
        ks[L] = 0;
        std::vector<uint32_t> T(tw);
        for (size_t j = 0; j < tw; j++)
                T[j] = ks[j];
        for (uint64_t i = 0; i <= LENGTH; i++) {
                // message bits select windows; the window after the last bit is always added
                if (i == LENGTH || msg_bit(msg, i))
                        for (size_t j = 0; j < tw; j++)
                                T[j] ^= ks_window32(ks, t + i + 32 * j);
        }
        tag.assign(tag_len, 0);
        for (size_t j = 0; j < tw; j++)
                put_be32(&tag[4 * j], T[j]);
        return true;
}


// ---------------------------------------------------------------------------
// LFSR cell streams (used by the residue scan, not by the output oracles): x[0..15] are the cells after initialisation,
// x[16 + n] is the cell shifted in by work-mode clock n, so the register at any later time t is x[t .. t+15].
// ---------------------------------------------------------------------------
bool ref_zuc_lfsr_stream(const uint8_t *key, size_t key_len, const uint8_t *iv, size_t iv_len, size_t tag_len,
                         size_t clocks, std::vector<uint32_t> &x, std::vector<uint32_t> *ks)
{
        x.clear();
        if (ks)
                ks->clear();
        Zuc z;
        if (key_len == 16) {
                if (iv_len != 16)
                        return false;
                z.init128(key, iv);
        } else if (key_len == 32) {
                uint8_t iv25[25];
                if (!zuc256_unpack_iv(iv, iv_len, iv25))
                        return false;
                z.init256(key, iv25, tag_len);
        } else
                return false;
        for (int i = 0; i < 16; i++)
                x.push_back(z.s[i]);
        for (size_t n = 0; n < clocks; n++) {
                const uint32_t w = z.next_word();
                if (ks)
                        ks->push_back(w);
                x.push_back(z.s[15]);
        }
        return true;
}

// ===========================================================================
// SNOW 3G (ETSI/SAGE "UEA2 & UIA2 Document 2: SNOW 3G Specification") and
// UEA2 / UIA2 (Document 1 = TS 35.215)
// ===========================================================================
namespace
{

inline uint8_t MULx(uint8_t V, uint8_t c) { return (V & 0x80) ? (uint8_t) ((V << 1) ^ c) : (uint8_t) (V << 1); }
inline uint8_t MULxPOW(uint8_t V, unsigned i, uint8_t c)
{
        while (i--)
                V = MULx(V, c);
        return V;
}
inline uint32_t MULalpha(uint8_t c)
{
        return ((uint32_t) MULxPOW(c, 23, 0xA9) << 24) | ((uint32_t) MULxPOW(c, 245, 0xA9) << 16) |
               ((uint32_t) MULxPOW(c, 48, 0xA9) << 8) | (uint32_t) MULxPOW(c, 239, 0xA9);
}
inline uint32_t DIValpha(uint8_t c)
{
        return ((uint32_t) MULxPOW(c, 16, 0xA9) << 24) | ((uint32_t) MULxPOW(c, 39, 0xA9) << 16) |
               ((uint32_t) MULxPOW(c, 6, 0xA9) << 8) | (uint32_t) MULxPOW(c, 64, 0xA9);
}
// MixColumn-like 32x32 S-box built from an 8-bit S-box and reduction constant c
inline uint32_t snow_sbox32(uint32_t w, const uint8_t *box, uint8_t c)
{
        const uint8_t b0 = box[w >> 24], b1 = box[(w >> 16) & 0xFF], b2 = box[(w >> 8) & 0xFF],
                      b3 = box[w & 0xFF];
        const uint8_t r0 = MULx(b0, c) ^ b1 ^ b2 ^ MULx(b3, c) ^ b3;
        const uint8_t r1 = MULx(b0, c) ^ b0 ^ MULx(b1, c) ^ b2 ^ b3;
        const uint8_t r2 = b0 ^ MULx(b1, c) ^ b1 ^ MULx(b2, c) ^ b3;
        const uint8_t r3 = b0 ^ b1 ^ MULx(b2, c) ^ b2 ^ MULx(b3, c);
        return ((uint32_t) r0 << 24) | ((uint32_t) r1 << 16) | ((uint32_t) r2 << 8) | r3;
}

struct Snow3g {
        uint32_t s[16];
        uint32_t R1, R2, R3;

        uint32_t clock_fsm()
        {
                const uint32_t F = (s[15] + R1) ^ R2;
                const uint32_t r = R2 + (R3 ^ s[5]);
                R3 = snow_sbox32(R2, ref_snow3g_SQ, 0x69);
                R2 = snow_sbox32(R1, ref_snow3g_SR, 0x1B);
                R1 = r;
                return F;
        }
        void clock_lfsr(uint32_t extra)
        {
                const uint32_t v = (s[0] << 8) ^ MULalpha((uint8_t) (s[0] >> 24)) ^ s[2] ^
                                   (s[11] >> 8) ^ DIValpha((uint8_t) (s[11] & 0xFF)) ^ extra;
                for (int i = 0; i < 15; i++)
                        s[i] = s[i + 1];
                s[15] = v;
        }
        // k[0..3] = k0..k3, iv[0..3] = IV0..IV3 as in the SNOW 3G document
        void init(const uint32_t k[4], const uint32_t iv[4])
        {
                const uint32_t ones = 0xFFFFFFFF;
                s[15] = k[3] ^ iv[0];
                s[14] = k[2];
                s[13] = k[1];
                s[12] = k[0] ^ iv[1];
                s[11] = k[3] ^ ones;
                s[10] = k[2] ^ ones ^ iv[2];
                s[9] = k[1] ^ ones ^ iv[3];
                s[8] = k[0] ^ ones;
                s[7] = k[3];
                s[6] = k[2];
                s[5] = k[1];
                s[4] = k[0];
                s[3] = k[3] ^ ones;
                s[2] = k[2] ^ ones;
                s[1] = k[1] ^ ones;
                s[0] = k[0] ^ ones;
                R1 = R2 = R3 = 0;
                for (int i = 0; i < 32; i++) {
                        const uint32_t F = clock_fsm();
                        clock_lfsr(F);
                }
                (void) clock_fsm(); // output discarded
                clock_lfsr(0);
        }
        uint32_t next_word()
        {
                const uint32_t F = clock_fsm();
                const uint32_t z = F ^ s[0];
                clock_lfsr(0);
                return z;
        }
        // 3GPP byte buffers: key = K3|K2|K1|K0, iv = IV3|IV2|IV1|IV0, every word big-endian
        void init_from_bytes(const uint8_t key[16], const uint8_t iv[16])
        {
                uint32_t k[4], v[4];
                for (int i = 0; i < 4; i++) {
                        k[3 - i] = be32(key + 4 * i);
                        v[3 - i] = be32(iv + 4 * i);
                }
                init(k, v);
        }
};

inline uint64_t MUL64x(uint64_t V, uint64_t c) { return (V >> 63) ? ((V << 1) ^ c) : (V << 1); }
inline uint64_t MUL64xPOW(uint64_t V, unsigned i, uint64_t c)
{
        while (i--)
                V = MUL64x(V, c);
        return V;
}
inline uint64_t MUL64(uint64_t V, uint64_t P, uint64_t c)
{
        uint64_t r = 0;
        for (unsigned i = 0; i < 64; i++)
                if ((P >> i) & 1)
                        r ^= MUL64xPOW(V, i, c);
        return r;
}

} // namespace

bool ref_snow3g_f8_keystream(const uint8_t key[16], const uint8_t iv[16], uint8_t *ks, size_t len)
{
        Snow3g g;
        g.init_from_bytes(key, iv);
        size_t i = 0;
        while (i < len) {
                uint8_t w[4];
                put_be32(w, g.next_word());
                for (int j = 0; j < 4 && i < len; j++, i++)
                        ks[i] = w[j];
        }
        return true;
}

bool ref_snow3g_lfsr_stream(const uint8_t key[16], const uint8_t iv[16], size_t clocks, std::vector<uint32_t> &x,
                            std::vector<uint32_t> *ks)
{
        x.clear();
        if (ks)
                ks->clear();
        Snow3g g;
        g.init_from_bytes(key, iv);
        for (int i = 0; i < 16; i++)
                x.push_back(g.s[i]);
        for (size_t n = 0; n < clocks; n++) {
                const uint32_t w = g.next_word();
                if (ks)
                        ks->push_back(w);
                x.push_back(g.s[15]);
        }
        return true;
}

bool ref_snow3g_uia2(const uint8_t key[16], const uint8_t iv[16], const uint8_t *msg,
                     uint32_t bits, Bytes &tag)
{
        Snow3g g;
        g.init_from_bytes(key, iv);
        uint32_t z[5];
        for (int i = 0; i < 5; i++)
                z[i] = g.next_word();
        const uint64_t P = ((uint64_t) z[0] << 32) | z[1];
        const uint64_t Q = ((uint64_t) z[2] << 32) | z[3];
        const uint64_t LENGTH = bits;
        const uint64_t nblocks = (LENGTH + 63) / 64; // D - 1 message blocks M_0 .. M_{D-2}
        uint64_t EVAL = 0;
        for (uint64_t b = 0; b < nblocks; b++) {
                uint64_t M = 0; // block b, zero padded after bit LENGTH-1
                for (unsigned j = 0; j < 64; j++) {
                        const uint64_t bit = b * 64 + j;
                        M <<= 1;
                        if (bit < LENGTH)
                                M |= msg_bit(msg, bit);
                }
                EVAL = MUL64(EVAL ^ M, P, 0x1B);
        }
        EVAL ^= LENGTH; // M_{D-1}
        EVAL = MUL64(EVAL, Q, 0x1B);
        const uint32_t mac = (uint32_t) (EVAL >> 32) ^ z[4];
        tag.assign(4, 0);
        put_be32(tag.data(), mac);
        return true;
}

// ===========================================================================
// KASUMI (TS 35.202) and f8 / f9 (TS 35.201)
// ===========================================================================
namespace
{

struct Kasumi {
        uint16_t KL1[8], KL2[8], KO1[8], KO2[8], KO3[8], KI1[8], KI2[8], KI3[8];

        explicit Kasumi(const uint8_t key[16])
        {
                static const uint16_t C[8] = { 0x0123, 0x4567, 0x89AB, 0xCDEF,
                                               0xFEDC, 0xBA98, 0x7654, 0x3210 };
                uint16_t K[8], Kp[8];
                for (int j = 0; j < 8; j++) {
                        K[j] = (uint16_t) ((key[2 * j] << 8) | key[2 * j + 1]);
                        Kp[j] = K[j] ^ C[j];
                }
                for (int i = 0; i < 8; i++) { // round i+1
                        KL1[i] = rol16(K[i], 1);
                        KL2[i] = Kp[(i + 2) & 7];
                        KO1[i] = rol16(K[(i + 1) & 7], 5);
                        KO2[i] = rol16(K[(i + 5) & 7], 8);
                        KO3[i] = rol16(K[(i + 6) & 7], 13);
                        KI1[i] = Kp[(i + 4) & 7];
                        KI2[i] = Kp[(i + 3) & 7];
                        KI3[i] = Kp[(i + 7) & 7];
                }
        }

        static uint16_t FI(uint16_t in, uint16_t ki)
        {
                uint16_t nine = in >> 7;    // L0, 9 bits
                uint16_t seven = in & 0x7F; // R0, 7 bits
                // L1 = R0, R1 = S9[L0] ^ ZE(R0)
                nine = ref_kasumi_S9[nine] ^ seven;
                // L2 = R1 ^ KI2 (9 bit), R2 = S7[L1] ^ TR(R1) ^ KI1 (7 bit)
                seven = ref_kasumi_S7[seven] ^ (nine & 0x7F);
                seven ^= (ki >> 9);
                nine ^= (ki & 0x1FF);
                // L3 = R2, R3 = S9[L2] ^ ZE(R2)
                nine = ref_kasumi_S9[nine] ^ seven;
                // L4 = S7[L3] ^ TR(R3), R4 = R3
                seven = ref_kasumi_S7[seven] ^ (nine & 0x7F);
                return (uint16_t) ((seven << 9) | nine);
        }
        uint32_t FO(uint32_t in, int r) const
        {
                uint16_t L = (uint16_t) (in >> 16), R = (uint16_t) in;
                const uint16_t ko[3] = { KO1[r], KO2[r], KO3[r] };
                const uint16_t ki[3] = { KI1[r], KI2[r], KI3[r] };
                for (int j = 0; j < 3; j++) {
                        const uint16_t newR = FI(L ^ ko[j], ki[j]) ^ R;
                        L = R;
                        R = newR;
                }
                return ((uint32_t) L << 16) | R;
        }
        uint32_t FL(uint32_t in, int r) const
        {
                uint16_t L = (uint16_t) (in >> 16), R = (uint16_t) in;
                R ^= rol16(L & KL1[r], 1);
                L ^= rol16(R | KL2[r], 1);
                return ((uint32_t) L << 16) | R;
        }
        uint64_t encrypt(uint64_t in) const
        {
                uint32_t L = (uint32_t) (in >> 32), R = (uint32_t) in;
                for (int r = 0; r < 8; r++) {
                        uint32_t f;
                        if ((r & 1) == 0) // odd rounds 1,3,5,7: FL then FO
                                f = FO(FL(L, r), r);
                        else // even rounds: FO then FL
                                f = FL(FO(L, r), r);
                        const uint32_t newL = R ^ f;
                        R = L;
                        L = newL;
                }
                return ((uint64_t) L << 32) | R;
        }
};

inline uint64_t be64(const uint8_t *p) { return ((uint64_t) be32(p) << 32) | be32(p + 4); }

} // namespace

uint64_t ref_kasumi_block(const uint8_t key[16], uint64_t in) { return Kasumi(key).encrypt(in); }

bool ref_kasumi_f8_keystream(const uint8_t key[16], const uint8_t iv[8], uint8_t *ks, size_t len)
{
        uint8_t mk[16];
        for (int i = 0; i < 16; i++)
                mk[i] = key[i] ^ 0x55; // CK xor KM
        const Kasumi kc(key), km(mk);
        const uint64_t A = km.encrypt(be64(iv));
        uint64_t KSB = 0, BLKCNT = 0;
        size_t i = 0;
        while (i < len) {
                KSB = kc.encrypt(A ^ BLKCNT ^ KSB);
                BLKCNT++;
                for (int j = 0; j < 8 && i < len; j++, i++)
                        ks[i] = (uint8_t) (KSB >> (56 - 8 * j));
        }
        return true;
}

bool ref_kasumi_f9_user(const uint8_t key[16], const uint8_t *msg, size_t len, Bytes &tag)
{
        uint8_t mk[16];
        for (int i = 0; i < 16; i++)
                mk[i] = key[i] ^ 0xAA; // IK xor KM
        const Kasumi ki(key), km(mk);
        uint64_t A = 0, B = 0;
        for (size_t off = 0; off < len; off += 8) {
                uint8_t blk[8] = { 0 };
                const size_t n = (len - off < 8) ? (len - off) : 8;
                memcpy(blk, msg + off, n);
                A = ki.encrypt(A ^ be64(blk));
                B ^= A;
        }
        B = km.encrypt(B);
        tag.assign(4, 0);
        put_be32(tag.data(), (uint32_t) (B >> 32));
        return true;
}

// 3GPP confidentiality/integrity algorithms written from the specifications
// (ZUC-128/256 EEA3/EIA3, SNOW 3G UEA2/UIA2, KASUMI F8/F9). Each returns false
// when no admitted reference exists (the caller then falls back to the
// differential oracles). Admission: tools/ref_admit.sh runs ref/admit/selftest_wireless.cc
// (the standards' vectors, taken as data from /repo/test/kat-app, plus structural checks of every table).
#pragma once
#include "prims.h"
bool ref_zuc_eea3(const uint8_t key[16], const uint8_t iv[16], const uint8_t *in, uint8_t *out, size_t len);
bool ref_zuc256_eea3(const uint8_t key[32], const uint8_t *iv, size_t iv_len, const uint8_t *in, uint8_t *out, size_t len);
bool ref_zuc_eia3(const uint8_t key[16], const uint8_t iv[16], const uint8_t *msg, uint32_t bits, Bytes &tag);
bool ref_zuc256_eia3(const uint8_t key[32], const uint8_t *iv, size_t iv_len, const uint8_t *msg, uint32_t bits, size_t tag_len, Bytes &tag);
bool ref_snow3g_f8_keystream(const uint8_t key[16], const uint8_t iv[16], uint8_t *ks, size_t len);
bool ref_zuc_lfsr_stream(const uint8_t *key, size_t key_len, const uint8_t *iv, size_t iv_len, size_t tag_len, size_t clocks, std::vector<uint32_t> &x, std::vector<uint32_t> *ks = nullptr);
bool ref_snow3g_lfsr_stream(const uint8_t key[16], const uint8_t iv[16], size_t clocks, std::vector<uint32_t> &x, std::vector<uint32_t> *ks = nullptr);
bool ref_snow3g_uia2(const uint8_t key[16], const uint8_t iv[16], const uint8_t *msg, uint32_t bits, Bytes &tag);
bool ref_kasumi_f8_keystream(const uint8_t key[16], const uint8_t iv[8], uint8_t *ks, size_t len);
bool ref_kasumi_f9_user(const uint8_t key[16], const uint8_t *msg, size_t len, Bytes &tag);
// tables and the KASUMI block function (used by the admission self-test)
extern const uint8_t ref_zuc_S0[256];
extern const uint8_t ref_zuc_S1[256];
extern const uint8_t ref_snow3g_SR[256];
extern const uint8_t ref_snow3g_SQ[256];
extern const uint8_t ref_kasumi_S7[128];
extern const uint16_t ref_kasumi_S9[512];
uint64_t ref_kasumi_block(const uint8_t key[16], uint64_t in);

#include "arena.h"
#include <sys/mman.h>
#include <stdio.h>
#include <stdlib.h>
#include <string.h>
#include <vector>

namespace arena {

struct Cls {
        size_t data_pages;
        size_t count;
        uintptr_t start; // address of first slot's data
        std::vector<int32_t> free_list;
        size_t stride() const { return (data_pages + 1) * PAGE; }
};

static Cls cls_[NCLS] = {
        { 1, 12288, 0, {} },  // S: 4 KiB objects
        { 17, 1280, 0, {} },  // M: up to 68 KiB
        { 320, 24, 0, {} },   // L: up to 1.25 MiB (managers, 1 MiB messages)
};
static uintptr_t end_ = 0;
static bool inited_ = false;
static uint8_t pattern_[PAGE * 2];
static size_t in_use_ = 0;

static inline uint8_t canary_at(uintptr_t a) { return (uint8_t) (((a & 4095) * 131u) ^ ((a & 4095) >> 5) ^ 0x5A); }

void
init()
{
        if (inited_)
                return;
        size_t total = PAGE; // leading guard
        for (int c = 0; c < NCLS; c++) {
                cls_[c].start = BASE + total;
                total += cls_[c].stride() * cls_[c].count;
        }
        end_ = BASE + total;
        void *m = mmap((void *) BASE, total, PROT_READ | PROT_WRITE,
                       MAP_PRIVATE | MAP_ANONYMOUS | MAP_NORESERVE | MAP_FIXED_NOREPLACE, -1, 0);
        if (m != (void *) BASE) {
                perror("arena mmap");
                exit(2);
        }
        mprotect((void *) BASE, PAGE, PROT_NONE);
        for (int c = 0; c < NCLS; c++)
                for (size_t i = 0; i < cls_[c].count; i++) {
                        uintptr_t g = cls_[c].start + i * cls_[c].stride() + cls_[c].data_pages * PAGE;
                        if (mprotect((void *) g, PAGE, PROT_NONE) != 0) {
                                perror("arena mprotect (vm.max_map_count?)");
                                exit(2);
                        }
                }
        for (size_t i = 0; i < sizeof pattern_; i++)
                pattern_[i] = canary_at(i);
        inited_ = true;
        reset();
}

void
reset()
{
        for (int c = 0; c < NCLS; c++) {
                cls_[c].free_list.clear();
                for (int32_t i = (int32_t) cls_[c].count - 1; i >= 0; i--)
                        cls_[c].free_list.push_back(i);
        }
        in_use_ = 0;
}

size_t max_len(int c) { return cls_[c].data_pages * PAGE; }
size_t slots_in_use() { return in_use_; }

static void
fill_canary(uint8_t *lo, uint8_t *hi)
{
        // lo is page aligned
        for (uint8_t *p = lo; p < hi; p += PAGE)
                memcpy(p, pattern_, (size_t) (hi - p) < PAGE ? (size_t) (hi - p) : PAGE);
}

Obj
alloc(uint32_t len, int place, uint32_t align, uint32_t mis)
{
        Obj o;
        int c = CLS_S;
        // leave room for canaries on both sides in MID placement
        size_t need = len + (place == PLACE_MID ? 2 * 256 + align + mis : align);
        while (c < NCLS && need > max_len(c))
                c++;
        if (c == NCLS || cls_[c].free_list.empty()) {
                // fall back to a bigger class if the smaller one is exhausted
                while (c < NCLS && cls_[c].free_list.empty())
                        c++;
                if (c >= NCLS) {
                        fprintf(stderr, "arena: out of slots (len=%u)\n", len);
                        abort();
                }
        }
        Cls &k = cls_[c];
        o.slot = k.free_list.back();
        k.free_list.pop_back();
        in_use_++;
        o.cls = (uint8_t) c;
        o.len = len;
        o.place = (uint8_t) place;
        uintptr_t lo = k.start + (size_t) o.slot * k.stride();
        uintptr_t hi = lo + k.data_pages * PAGE;
        uintptr_t p;
        if (align == 0)
                align = 1;
        if (place == PLACE_END) {
                p = (hi - len) & ~(uintptr_t) (align - 1);
        } else if (place == PLACE_START) {
                p = lo; // page aligned, satisfies any alignment <= 4096
        } else {
                // middle: at least 256 bytes of canary before; honour alignment then add mis-alignment
                p = (lo + 256 + align - 1) & ~(uintptr_t) (align - 1);
                p += mis;
                if (c != CLS_S) {
                        // put it somewhere not page aligned relative to the end either
                        uintptr_t room = hi - 256 - (p + len);
                        uintptr_t shift = (room / 2) & ~(uintptr_t) 4095;
                        p += shift;
                }
        }
        o.p = (uint8_t *) p;
        uintptr_t wlo = (p > lo + PAGE) ? ((p - PAGE) & ~(uintptr_t) (PAGE - 1)) : lo;
        if (wlo < lo)
                wlo = lo;
        uintptr_t whi = (p + len + PAGE + PAGE - 1) & ~(uintptr_t) (PAGE - 1);
        if (whi > hi)
                whi = hi;
        o.win_lo = (uint8_t *) wlo;
        o.win_hi = (uint8_t *) whi;
        fill_canary(o.win_lo, o.win_hi);
        return o;
}

void
release(Obj &o)
{
        if (o.slot < 0)
                return;
        cls_[o.cls].free_list.push_back(o.slot);
        in_use_--;
        o.slot = -1;
        o.p = nullptr;
}

bool
canary_broken(const Obj &o, uint64_t *where)
{
        if (o.slot < 0)
                return false;
        for (uint8_t *p = o.win_lo; p < o.win_hi; p += PAGE) {
                uint8_t *pe = p + PAGE < o.win_hi ? p + PAGE : o.win_hi;
                // segments of this page outside [o.p, o.p+len)
                uint8_t *a0 = p, *a1 = pe;
                uint8_t *ob = o.p, *oe = o.p + o.len;
                auto chk = [&](uint8_t *s, uint8_t *e) -> bool {
                        if (s >= e)
                                return false;
                        if (memcmp(s, pattern_ + (s - p), (size_t) (e - s)) == 0)
                                return false;
                        for (uint8_t *q = s; q < e; q++)
                                if (*q != pattern_[q - p]) {
                                        if (where)
                                                *where = (uint64_t) (uintptr_t) q;
                                        break;
                                }
                        return true;
                };
                if (oe <= a0 || ob >= a1) {
                        if (chk(a0, a1))
                                return true;
                } else {
                        if (chk(a0, ob < a0 ? a0 : ob))
                                return true;
                        if (chk(oe > a1 ? a1 : oe, a1))
                                return true;
                }
        }
        return false;
}

bool in_arena(const void *addr) { return (uintptr_t) addr >= BASE && (uintptr_t) addr < end_; }

bool
in_guard(const void *addr)
{
        uintptr_t a = (uintptr_t) addr;
        if (a < BASE || a >= end_)
                return false;
        if (a < BASE + PAGE)
                return true;
        for (int c = NCLS - 1; c >= 0; c--)
                if (a >= cls_[c].start) {
                        size_t off = (a - cls_[c].start) % cls_[c].stride();
                        return off >= cls_[c].data_pages * PAGE;
                }
        return false;
}

uint64_t rel(const void *p) { return in_arena(p) ? (uint64_t) ((uintptr_t) p - BASE) : ~0ull; }

} // namespace arena

// Fixed-address arena with one slot per caller object, each slot followed (and
// preceded) by a PROT_NONE page. Objects can be placed flush against the guard
// that follows (PLACE_END), flush against the guard that precedes (PLACE_START)
// or in the middle of canary-filled memory (PLACE_MID). DESIGN.md 2.1, C07.
#pragma once
#include <stdint.h>
#include <stddef.h>
#include <string>

namespace arena {

enum { PLACE_MID = 0, PLACE_END = 1, PLACE_START = 2 };
enum { CLS_S = 0, CLS_M = 1, CLS_L = 2, NCLS = 3 };

struct Obj {
        uint8_t *p = nullptr;
        uint32_t len = 0;
        int32_t slot = -1;
        uint8_t cls = 0;
        uint8_t place = 0;
        uint8_t *win_lo = nullptr, *win_hi = nullptr; // canary window [lo,hi) around the object
        bool valid() const { return slot >= 0; }
};

static const uintptr_t BASE = 0x600000000000ull;
static const size_t PAGE = 4096;

void init();  // maps the arena at BASE (idempotent)
void reset(); // frees every slot (start of a run)
Obj alloc(uint32_t len, int place, uint32_t align = 1, uint32_t mis = 0);
void release(Obj &o);
// true if bytes outside the object but inside its canary window were modified
bool canary_broken(const Obj &o, uint64_t *where = nullptr);
bool in_guard(const void *addr);  // address lies in one of the arena's PROT_NONE pages
bool in_arena(const void *addr);
uint64_t rel(const void *p);      // arena-relative offset (stable across processes); ~0 for foreign
size_t slots_in_use();
size_t max_len(int cls);

} // namespace arena

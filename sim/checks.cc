// Per-property case sources: which plans are generated and which cross-execution
// oracles are applied (history comparisons that need more than one execution).
#include "driver.h"

CaseSource
source_for(const std::string &profile, const std::string &prop, int tier)
{
        CaseSource s;
        ProfileCfg pc = profile_by_name(profile, prop, tier);
        s.make = [pc](uint64_t run_seed, uint64_t) { return gen_plan(pc, run_seed); };
        if (profile == "reject_sync")
                s.make = [pc](uint64_t run_seed, uint64_t) { return gen_plan_entry(pc, run_seed); };
        if (profile == "reject") {
                // C12: one run in four exercises the synchronous burst entry points with invalid jobs
                ProfileCfg ps = profile_by_name("reject_sync", prop, tier);
                s.make = [pc, ps](uint64_t run_seed, uint64_t idx) {
                        if (idx % 6 == 5)
                                return gen_plan_dmisuse(pc, run_seed); // direct-API functions with one bad argument
                        return (idx % 4 == 3) ? gen_plan_entry(ps, run_seed) : gen_plan(pc, run_seed);
                };
        }
        if (profile == "cc") {
                // C18: every kind of entry point: schedules (job/burst API, invalid jobs), direct API + sync bursts,
                // key-preparation helpers, SGL streams - all through the register-checking trampoline
                ProfileCfg pe = profile_by_name("entry", prop, tier), pk = profile_by_name("keyprep", prop, tier),
                           pg = profile_by_name("sgl", prop, tier);
                pe.oracles = pk.oracles = pg.oracles = OR_FIFO;
                pe.allow_invalid = true;
                s.make = [pc, pe, pk, pg](uint64_t run_seed, uint64_t idx) {
                        switch (idx % 5) {
                        case 1: return gen_plan_entry(pe, run_seed);
                        case 2: return gen_plan_keyprep(pk, run_seed);
                        case 3: return gen_plan_sgl(pg, run_seed);
                        default: return gen_plan(pc, run_seed);
                        }
                };
        }
        if (profile == "desc") {
                // C14: one run in eight walks the direct-API catalogue (error code cleared by a following valid call)
                s.make = [pc](uint64_t run_seed, uint64_t idx) { return (idx % 8 == 7) ? gen_plan_dmisuse(pc, run_seed) : gen_plan(pc, run_seed); };
        }
        if (profile == "ref_chain") {
                // C06: every other run is devoted to one cell of the table (cipher, key size, direction) x hash x chain order,
                // chosen by a seeded index, together with one randomly chosen second suite so that lanes are shared
                std::vector<Suite> cs = all_cipher_suites(), hs = all_hash_suites();
                s.make = [pc, cs, hs](uint64_t run_seed, uint64_t idx) {
                        if (!(idx & 1))
                                return gen_plan(pc, run_seed);
                        ProfileCfg q = pc;
                        uint64_t cell = mix64(run_seed, 0xC06) % ((uint64_t) cs.size() * hs.size() * 2);
                        Suite su = cs[cell % cs.size()];
                        su.hash = hs[(cell / cs.size()) % hs.size()].hash;
                        su.order = (cell / cs.size() / hs.size()) ? IMB_ORDER_HASH_CIPHER : IMB_ORDER_CIPHER_HASH;
                        q.fixed_suites.push_back(su);
                        q.fixed_suites.push_back(su);
                        q.fixed_suites.push_back(su);
                        Suite other = cs[mix64(run_seed, 0xC07) % cs.size()];
                        other.hash = hs[mix64(run_seed, 0xC08) % hs.size()].hash;
                        other.order = (run_seed & 1) ? IMB_ORDER_HASH_CIPHER : IMB_ORDER_CIPHER_HASH;
                        q.fixed_suites.push_back(other);
                        return gen_plan(q, run_seed);
                };
        }
        if (profile == "guard") {
                // C07: besides ordinary schedules, the segmented entry points (SGL streams, segment lists, init/update/finalize)
                // with every segment in its own guarded object, and the direct/sync-burst entry points
                ProfileCfg pe = profile_by_name("entry", prop, tier), pg = profile_by_name("sgl", prop, tier);
                pe.oracles = pg.oracles = pc.oracles;
                pe.guard = pg.guard = true;
                s.make = [pc, pe, pg](uint64_t run_seed, uint64_t idx) {
                        switch (idx % 6) {
                        case 2: return gen_plan_entry(pe, run_seed);
                        case 4: return gen_plan_sgl(pg, run_seed);
                        default: return gen_plan(pc, run_seed);
                        }
                };
        }
        if (profile == "scrub") {
                // C13: one run in four goes through the direct functions and synchronous bursts (scanned right after each call)
                ProfileCfg pe = profile_by_name("scrub_entry", prop, tier);
                s.make = [pc, pe](uint64_t run_seed, uint64_t idx) { return (idx % 4 == 3) ? gen_plan_entry(pe, run_seed) : gen_plan(pc, run_seed); };
        }
        if (profile == "f12")
                s.make = [pc](uint64_t run_seed, uint64_t) { return gen_plan_f12(pc, run_seed); };
        if (profile == "scrub_entry")
                s.make = [pc](uint64_t run_seed, uint64_t) { return gen_plan_entry(pc, run_seed); };
        if (profile == "entry") {
                // C09; one run in twelve is fault kind F12: a synchronous burst while asynchronous jobs of the same family are parked
                ProfileCfg pf = profile_by_name("f12", prop, tier);
                s.make = [pc, pf](uint64_t run_seed, uint64_t idx) { return (idx % 12 == 11) ? gen_plan_f12(pf, run_seed) : gen_plan_entry(pc, run_seed); };
        }
        if (profile == "keyprep")
                s.make = [pc](uint64_t run_seed, uint64_t) { return gen_plan_keyprep(pc, run_seed); };
        if (profile == "sgl")
                s.make = [pc](uint64_t run_seed, uint64_t idx) {
                        // every other run takes a seeded cell of the table of all 2-cut partitions of short messages (12 cut pairs per run)
                        return (idx & 1) ? gen_plan_sgl_enum(pc, run_seed, mix64(run_seed, 0xC10)) : gen_plan_sgl(pc, run_seed);
                };

        if (profile == "indep") {
                // C17: each task's history must equal the history of the same task run alone; every execution happens in a
                // forked child so that whatever a run leaves in the library's process-wide state cannot reach the next one
                s.isolate = true;
                // one run in four: synchronous bursts and direct calls on one manager while another keeps jobs of the same
                // suites parked
                s.make = [pc](uint64_t run_seed, uint64_t idx) { return (idx % 4 == 3) ? gen_plan_indep_entry(pc, run_seed) : gen_plan(pc, run_seed); };
                s.post = [](const Plan &p, const RunResult &r, std::vector<Violation> &out) {
                        for (size_t t = 0; t < p.task_cfg.size(); t++) {
                                RunOpts o;
                                o.only_task = (int) t;
                                RunResult alone = run_plan_isolated(p, o);
                                if (alone.task_hash[t] != r.task_hash[t]) {
                                        Violation v;
                                        v.prop = "C17";
                                        v.oracle = "indep.history";
                                        char b[200];
                                        snprintf(b, sizeof b,
                                                 "task %zu (%s): history when interleaved with %zu other manager(s) differs from "
                                                 "its history when run alone",
                                                 t, cfg_name(p.task_cfg[t]), p.task_cfg.size() - 1);
                                        v.detail = b;
                                        v.op_index = -1;
                                        out.push_back(v);
                                } else if (alone.task_hash_user[t] != r.task_hash_user[t]) {
                                        // same own-field history, but imb_get_errno() differs: the process-wide mirror shows through
                                        Violation v;
                                        v.prop = "C17";
                                        v.oracle = "indep.errno_mirror";
                                        char b[300];
                                        snprintf(b, sizeof b,
                                                 "task %zu (%s): imb_get_errno() after some call returns a code that this manager never produced "
                                                 "(its own error field is identical to the run alone): the last error of another manager is "
                                                 "reported through the process-wide mirror",
                                                 t, cfg_name(p.task_cfg[t]));
                                        v.detail = b;
                                        v.op_index = -1;
                                        v.key = "what=errno-of-another-manager-via-process-wide-mirror";
                                        out.push_back(v);
                                }
                        }
                };
        }
        if (profile == "reinit") {
                // C15: the history after the last re-initialisation must equal the history of the same
                // ops on a freshly allocated manager initialised for the same variant
                s.post = [](const Plan &p, const RunResult &r, std::vector<Violation> &out) {
                        int last = -1;
                        for (size_t i = 0; i < p.ops.size(); i++)
                                if (p.ops[i].kind == OP_REINIT)
                                        last = (int) i;
                        if (last < 0)
                                return;
                        Plan q;
                        q.seed = p.seed;
                        q.profile = p.profile;
                        q.prop = p.prop;
                        q.oracles = p.oracles;
                        q.warmup = 0;
                        int cfg = p.ops[(size_t) last].a;
                        if (cfg < 0 || cfg >= NCFG)
                                return;
                        q.task_cfg = { cfg };
                        Op mark;
                        mark.kind = OP_MARK;
                        q.ops.push_back(mark);
                        for (size_t i = (size_t) last + 1; i < p.ops.size(); i++)
                                q.ops.push_back(p.ops[i]);
                        RunResult fresh = run_plan(q);
                        if (fresh.suffix_hash != r.suffix_hash) {
                                Violation v;
                                v.prop = "C15";
                                v.oracle = "reinit.history";
                                char b[256];
                                snprintf(b, sizeof b,
                                         "history of the %zu ops after re-initialising as %s differs from the same ops on a fresh %s manager",
                                         p.ops.size() - (size_t) last - 1, cfg_name(cfg), cfg_name(cfg));
                                v.detail = b;
                                v.op_index = last;
                                out.push_back(v);
                        }
                };
        }
        return s;
}

// Per-property case sources: which plans are generated and which cross-execution
// oracles are applied (history comparisons that need more than one execution).
#include "driver.h"

CaseSource
source_for(const std::string &profile, const std::string &prop, int tier)
{
        CaseSource s;
        ProfileCfg pc = profile_by_name(profile, prop, tier);
        s.make = [pc](uint64_t run_seed, uint64_t) { return gen_plan(pc, run_seed); };

        if (profile == "indep") {
                // C17: each task's history must equal the history of the same task run alone
                s.post = [](const Plan &p, const RunResult &r, std::vector<Violation> &out) {
                        for (size_t t = 0; t < p.task_cfg.size(); t++) {
                                RunOpts o;
                                o.only_task = (int) t;
                                RunResult alone = run_plan(p, o);
                                if (alone.task_hash[t] != r.task_hash[t]) {
                                        Violation v;
                                        v.prop = "C17";
                                        v.oracle = "indep.history";
                                        char b[200];
                                        snprintf(b, sizeof b,
                                                 "task %zu (%s): history when interleaved with %zu other manager(s) differs from "
                                                 "its history when run alone",
                                                 t, cfg_name(p.task_cfg[t]), p.task_cfg.size() - 1);
                                        v.detail = b;
                                        v.op_index = -1;
                                        out.push_back(v);
                                }
                        }
                };
        }
        return s;
}

// Link-time seam for CPU feature detection (-Wl,--wrap=mbcpuid): the real CPUID
// result with selected feature bits taken away (fault F5). Off by default.
#include <stdint.h>
#include <intel-ipsec-mb.h>
struct cpuid_regs {
        uint32_t eax, ebx, ecx, edx;
};
extern "C" void __real_mbcpuid(const unsigned leaf, const unsigned subleaf, struct cpuid_regs *out);
uint64_t g_cpuid_remove = 0; // IMB_FEATURE_* bits to hide
uint64_t g_cpuid_calls = 0;

extern "C" void
__wrap_mbcpuid(const unsigned leaf, const unsigned subleaf, struct cpuid_regs *out)
{
        __real_mbcpuid(leaf, subleaf, out);
        g_cpuid_calls++;
        const uint64_t rm = g_cpuid_remove;
        if (!rm)
                return;
        auto clr = [&](uint64_t feat, uint32_t &reg, int bit) {
                if (rm & feat)
                        reg &= ~(1u << bit);
        };
        if (leaf == 1 && subleaf == 0) {
                clr(IMB_FEATURE_AESNI, out->ecx, 25);
                clr(IMB_FEATURE_PCLMULQDQ, out->ecx, 1);
                clr(IMB_FEATURE_CMOV, out->edx, 15);
                clr(IMB_FEATURE_SSE4_2, out->ecx, 20);
                clr(IMB_FEATURE_AVX, out->ecx, 28);
                clr(IMB_FEATURE_XSAVE, out->ecx, 26);
                clr(IMB_FEATURE_OSXSAVE, out->ecx, 27);
        } else if (leaf == 7 && subleaf == 0) {
                clr(IMB_FEATURE_SHANI, out->ebx, 29);
                clr(IMB_FEATURE_AVX2, out->ebx, 5);
                clr(IMB_FEATURE_AVX512F, out->ebx, 16);
                clr(IMB_FEATURE_AVX512DQ, out->ebx, 17);
                clr(IMB_FEATURE_AVX512CD, out->ebx, 28);
                clr(IMB_FEATURE_AVX512BW, out->ebx, 30);
                clr(IMB_FEATURE_AVX512VL, out->ebx, 31);
                clr(IMB_FEATURE_VAES, out->ecx, 9);
                clr(IMB_FEATURE_VPCLMULQDQ, out->ecx, 10);
                clr(IMB_FEATURE_GFNI, out->ecx, 8);
                clr(IMB_FEATURE_AVX512_IFMA, out->ebx, 21);
                clr(IMB_FEATURE_BMI2, out->ebx, 8);
        } else if (leaf == 7 && subleaf == 1) {
                clr(IMB_FEATURE_AVX_IFMA, out->eax, 23);
        }
}

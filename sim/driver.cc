#include "driver.h"
#include <sys/wait.h>
#include <sys/stat.h>
#include <sys/mman.h>
#include <fcntl.h>
#include <unistd.h>
#include <stdio.h>
#include <stdlib.h>
#include <algorithm>
#include <sstream>

CaseSource source_for(const std::string &profile, const std::string &prop, int tier); // checks.cc
int special_replay(const JVal &root, bool verbose);                                       // special.cc

std::string
verif_dir()
{
        const char *e = getenv("VERIF_DIR");
        return e ? e : "/verif";
}
// where evidence and replay files go (mutant trials redirect this so that /verif/evidence is not touched)
std::string
out_dir()
{
        const char *e = getenv("VERIF_OUT");
        return e ? std::string(e) : verif_dir();
}

// ------------------------------------------------------------------ known findings
std::vector<KnownFinding>
load_known(const std::string &path)
{
        std::vector<KnownFinding> out;
        std::string txt;
        if (!read_file(path, txt))
                return out;
        JP v = json_parse(txt);
        if (!v)
                return out;
        JP arr = v->t == JVal::ARR ? v : v->get("findings");
        if (!arr)
                return out;
        for (auto &e : arr->a) {
                KnownFinding k;
                k.kind = e->gets("kind");
                k.prop = e->gets("property");
                k.oracle = e->gets("oracle");
                k.key = e->gets("key");
                k.what = e->gets("what");
                out.push_back(k);
        }
        return out;
}

static std::vector<std::string>
split(const std::string &s, char d)
{
        std::vector<std::string> v;
        std::string cur;
        for (char ch : s) {
                if (ch == d) {
                        if (!cur.empty())
                                v.push_back(cur);
                        cur.clear();
                } else
                        cur += ch;
        }
        if (!cur.empty())
                v.push_back(cur);
        return v;
}

const KnownFinding *
match_known(const std::vector<KnownFinding> &ks, const Violation &v)
{
        if (v.key.empty())
                return nullptr;
        auto have = split(v.key, ';');
        for (auto &k : ks) {
                if (k.kind != "finding" || k.prop != v.prop)
                        continue;
                if (!k.oracle.empty() && v.oracle.compare(0, k.oracle.size(), k.oracle) != 0)
                        continue;
                auto need = split(k.key, ';');
                if (need.empty())
                        continue; // never match "any violation of this property"
                bool all = true;
                for (auto &n : need)
                        if (std::find(have.begin(), have.end(), n) == have.end())
                                all = false;
                if (all)
                        return &k;
        }
        return nullptr;
}

// ------------------------------------------------------------------ executing one case
static RunResult
exec_case(const Plan &p, const CaseSource &src, bool want_log = false)
{
        RunOpts o;
        o.want_log = want_log;
        if (src.isolate)
                arena::init(); // map the arena once here so that the children inherit it
        RunResult r = src.isolate ? run_plan_isolated(p, o) : run_plan(p, o);
        if (src.post && !r.crashed)
                src.post(p, r, r.viols);
        return r;
}

static const Violation *
find_viol(const RunResult &r, const Violation &t)
{
        for (auto &v : r.viols)
                if (v.prop == t.prop && v.oracle == t.oracle && v.key == t.key)
                        return &v;
        return nullptr;
}

// ------------------------------------------------------------------ minimisation
static bool
still_fails(const Plan &p, const CaseSource &src, const Violation &t, int *reruns)
{
        if (reruns)
                (*reruns)++;
        RunResult r = exec_case(p, src);
        return find_viol(r, t) != nullptr;
}

Plan
shrink_plan(const Plan &p0, const CaseSource &src, const Violation &t, int *reruns)
{
        Plan p = p0;
        int budget = 400;
        auto ok = [&](const Plan &q) {
                if (budget-- <= 0)
                        return false;
                return still_fails(q, src, t, reruns);
        };
        // drop everything after the failing op first
        if (t.op_index >= 0 && (size_t) t.op_index + 1 < p.ops.size()) {
                Plan q = p;
                q.ops.resize((size_t) t.op_index + 1);
                if (ok(q))
                        p = q;
        }
        if (p.warmup) {
                Plan q = p;
                q.warmup = 0;
                if (ok(q))
                        p = q;
        }
        // ddmin over ops
        size_t chunk = p.ops.size() / 2;
        while (chunk >= 1 && budget > 0) {
                bool removed = false;
                for (size_t start = 0; start < p.ops.size() && budget > 0;) {
                        Plan q = p;
                        size_t end = std::min(start + chunk, q.ops.size());
                        q.ops.erase(q.ops.begin() + (long) start, q.ops.begin() + (long) end);
                        if (!q.ops.empty() && ok(q)) {
                                p = q;
                                removed = true;
                        } else
                                start += chunk;
                }
                if (!removed)
                        chunk /= 2;
                else if (chunk > p.ops.size())
                        chunk = p.ops.size() / 2;
        }
        // shrink bursts and job fields
        for (size_t i = 0; i < p.ops.size() && budget > 0; i++) {
                while (p.ops[i].jobs.size() > 1 && budget > 0) {
                        Plan q = p;
                        q.ops[i].jobs.pop_back();
                        if (ok(q))
                                p = q;
                        else
                                break;
                }
                for (size_t k = 0; k < p.ops[i].jobs.size() && budget > 0; k++) {
                        auto attempt = [&](std::function<bool(JobSpec &)> f) {
                                Plan q = p;
                                if (!f(q.ops[i].jobs[k]))
                                        return;
                                if (ok(q))
                                        p = q;
                        };
                        attempt([](JobSpec &j) {
                                bool ch = false;
                                for (int o = 0; o < O_NOBJ; o++)
                                        if (j.place[o]) {
                                                j.place[o] = 0;
                                                ch = true;
                                        }
                                return ch;
                        });
                        for (int o = 0; o < O_NOBJ; o++)
                                attempt([o](JobSpec &j) {
                                        if (!j.place[o])
                                                return false;
                                        j.place[o] = 0;
                                        return true;
                                });
                        attempt([](JobSpec &j) {
                                if (!j.mis[0] && !j.mis[1])
                                        return false;
                                j.mis[0] = j.mis[1] = 0;
                                return true;
                        });
                        attempt([](JobSpec &j) {
                                if (!j.iv_kind)
                                        return false;
                                j.iv_kind = 0;
                                return true;
                        });
                        attempt([](JobSpec &j) {
                                if (!j.aad_len)
                                        return false;
                                j.aad_len = 0;
                                return true;
                        });
                        attempt([](JobSpec &j) {
                                if (j.inplace)
                                        return false;
                                j.inplace = 1;
                                return true;
                        });
                }
        }
        return p;
}

// ------------------------------------------------------------------ replay files
static std::string
replay_json(const Plan &p, const Violation &v, int nops_before, int reruns)
{
        JW w;
        w.obj();
        w.str("property", v.prop).str("oracle", v.oracle).str("key", v.key).str("detail", v.detail);
        w.num("op_index", v.op_index).num("ops_before_minimisation", nops_before).num("shrink_reruns", reruns);
        w.raw("plan", plan_to_json(p));
        w.end_obj();
        return w.out;
}

int
replay_file(const std::string &path, bool verbose)
{
        std::string txt;
        if (!read_file(path, txt)) {
                fprintf(stderr, "replay: cannot read %s\n", path.c_str());
                return 2;
        }
        JP v = json_parse(txt);
        Plan p;
        if (v && v->get("case"))
                return special_replay(*v, verbose);
        if (!v || !plan_from_json(txt, p)) {
                fprintf(stderr, "replay: cannot parse %s\n", path.c_str());
                return 2;
        }
        Violation t;
        t.prop = v->gets("property");
        t.oracle = v->gets("oracle");
        t.key = v->gets("key");
        CaseSource src = source_for(p.profile, p.prop, 0);
        RunResult r = exec_case(p, src, verbose);
        if (verbose) {
                for (auto &l : r.log)
                        printf("%s\n", l.c_str());
                for (auto &x : r.viols)
                        printf("violation: property=%s oracle=%s op=%d key=%s\n   %s\n", x.prop.c_str(), x.oracle.c_str(),
                               x.op_index, x.key.c_str(), x.detail.c_str());
                printf("log_hash=%016llx\n", (unsigned long long) r.log_hash);
        }
        const Violation *f = t.oracle.empty() ? (r.viols.empty() ? nullptr : &r.viols[0]) : find_viol(r, t);
        if (f) {
                printf("REPRODUCED property=%s oracle=%s: %s\n", f->prop.c_str(), f->oracle.c_str(), f->detail.c_str());
                return 1;
        }
        printf("NOT-REPRODUCED\n");
        return 0;
}

// ------------------------------------------------------------------ batch
namespace {

struct WorkerOut {
        uint64_t runs = 0, ops = 0;
        uint64_t ctr[CT_N] = { 0 };
        std::set<uint64_t> states;
        std::map<std::string, uint64_t> cfgs;
        struct V {
                Violation v;
                std::string replay;
                bool known = false;
                std::string known_what;
                uint64_t seed = 0;
                bool gate_ok = true;
        };
        std::vector<V> viols;
        std::vector<std::string> notes;
        std::vector<std::string> samples;
};

std::string
sample_of(const Plan &p)
{
        JW w;
        w.obj();
        w.unum("run_seed", p.seed);
        w.arr("variants");
        for (int c : p.task_cfg)
                w.astr(cfg_name(c));
        w.end_arr();
        w.num("warmup", p.warmup).num("n_ops", (int64_t) p.ops.size());
        w.arr("ops");
        size_t lim = 14;
        for (size_t i = 0; i < p.ops.size() && i < lim; i++) {
                const Op &o = p.ops[i];
                std::string s = std::string(op_names[o.kind]);
                if (o.kind == OP_SUBMIT && !o.jobs.empty())
                        s += (o.nocheck ? "_NOCHECK " : " ") + spec_str(o.jobs[0]);
                else if (o.kind == OP_BURST)
                        s += "(" + std::to_string(o.jobs.size()) + (o.jobs.empty() ? ")" : ") first=" + spec_str(o.jobs[0]));
                else if (o.a)
                        s += " a=" + std::to_string(o.a);
                if (p.task_cfg.size() > 1)
                        s = "t" + std::to_string(o.task) + ":" + s;
                w.astr(s);
        }
        if (p.ops.size() > lim)
                w.astr("... " + std::to_string(p.ops.size() - lim) + " more ops");
        w.end_arr();
        w.end_obj();
        return w.out;
}

void
write_worker_out(const std::string &path, const WorkerOut &o)
{
        JW w;
        w.obj();
        w.num("runs", (int64_t) o.runs);
        w.arr("ctr");
        for (int i = 0; i < CT_N; i++)
                w.anum((int64_t) o.ctr[i]);
        w.end_arr();
        w.arr("states");
        for (auto s : o.states)
                w.astr(std::to_string(s));
        w.end_arr();
        w.obj("cfgs");
        for (auto &kv : o.cfgs)
                w.num(kv.first.c_str(), (int64_t) kv.second);
        w.end_obj();
        w.arr("viols");
        for (auto &x : o.viols) {
                w.obj();
                w.str("prop", x.v.prop).str("oracle", x.v.oracle).str("detail", x.v.detail).str("key", x.v.key);
                w.str("replay", x.replay).boolean("known", x.known).str("known_what", x.known_what).unum("seed", x.seed);
                w.boolean("gate_ok", x.gate_ok);
                w.end_obj();
        }
        w.end_arr();
        w.arr("notes");
        for (auto &n : o.notes)
                w.astr(n);
        w.end_arr();
        w.arr("samples");
        for (auto &s : o.samples)
                w.raw(nullptr, s);
        w.end_arr();
        w.end_obj();
        write_file(path, w.out);
}

} // namespace

int
run_batch(const BatchCfg &cfg, const CaseSource &src, JW *extra_cov)
{
        const double t0 = now_s();
        const std::string vd = verif_dir();
        const std::string od = out_dir();
        mkdir(od.c_str(), 0755);
        mkdir((od + "/evidence").c_str(), 0755);
        mkdir((od + "/replays").c_str(), 0755);
        mkdir((vd + "/.cache").c_str(), 0755);
        mkdir((vd + "/.cache/tmp").c_str(), 0755);
        std::vector<KnownFinding> known = load_known(vd + "/known_findings.json");
        arena::init(); // before fork: children inherit the mapping
        int W = cfg.workers;
        if ((uint64_t) W > cfg.runs)
                W = (int) (cfg.runs ? cfg.runs : 1);
        std::vector<pid_t> pids;
        char tmpl[256];
        snprintf(tmpl, sizeof tmpl, "%s/.cache/tmp/%s-%d", vd.c_str(), cfg.prop.c_str(), (int) getpid());
        // run indices are handed out through a shared counter (balanced; each run is still a pure
        // function of its index, so which worker executes it does not matter)
        uint64_t *next_idx = (uint64_t *) mmap(nullptr, 4096, PROT_READ | PROT_WRITE, MAP_SHARED | MAP_ANONYMOUS, -1, 0);
        *next_idx = 0;
        for (int w = 0; w < W; w++) {
                fflush(stdout);
                pid_t pid = fork();
                if (pid == 0) {
                        WorkerOut out;
                        bool stop_worker = false;
                        for (;;) {
                                if (stop_worker)
                                        break;
                                uint64_t i = __atomic_fetch_add(next_idx, 1, __ATOMIC_RELAXED);
                                if (i >= cfg.runs)
                                        break;
                                if (now_s() - t0 > cfg.budget_s)
                                        break;
                                uint64_t run_seed = mix64(cfg.seed, i + 1);
                                Plan p = src.make(run_seed, i);
                                p.seed = run_seed;
                                if (p.prop.empty())
                                        p.prop = cfg.prop;
                                RunResult r = exec_case(p, src);
                                out.runs++;
                                for (int k = 0; k < CT_N; k++) {
                                        if (k == CT_MAX_INFLIGHT)
                                                out.ctr[k] = std::max(out.ctr[k], r.ctr[k]);
                                        else
                                                out.ctr[k] += r.ctr[k];
                                }
                                out.states.insert(r.states.begin(), r.states.end());
                                for (int c : p.task_cfg)
                                        out.cfgs[cfg_name(c)]++;
                                if (out.samples.size() < 1 && i < 3)
                                        out.samples.push_back(sample_of(p));
                                std::set<std::string> seen;
                                for (auto &v : r.viols) {
                                        std::string sig = v.prop + "|" + v.oracle + "|" + v.key;
                                        if (seen.count(sig))
                                                continue;
                                        seen.insert(sig);
                                        if (v.prop != cfg.prop) {
                                                if (out.notes.size() < 20)
                                                        out.notes.push_back("NOTE other-property=" + v.prop + " oracle=" + v.oracle +
                                                                            " seed=" + std::to_string(run_seed) + " " + v.detail);
                                                continue;
                                        }
                                        // de-duplicate across runs of this worker by signature
                                        bool dup = false;
                                        for (auto &x : out.viols)
                                                if (x.v.oracle == v.oracle && x.v.key == v.key)
                                                        dup = true;
                                        if (dup && !v.key.empty())
                                                continue;
                                        if (getenv("VERIF_ENUM")) {
                                                // enumeration aid (not a check): list every distinct violation class, no gate/shrink
                                                WorkerOut::V rec;
                                                rec.v = v;
                                                rec.seed = run_seed;
                                                out.viols.push_back(rec);
                                                printf("CLASS property=%s oracle=%s key=%s seed=%llu :: %s\n", v.prop.c_str(), v.oracle.c_str(),
                                                       v.key.c_str(), (unsigned long long) run_seed, v.detail.c_str());
                                                fflush(stdout);
                                                continue;
                                        }
                                        if (const KnownFinding *kf = match_known(known, v)) {
                                                // a listed finding: count it, no gate / shrink / replay file
                                                bool have = false;
                                                for (auto &x : out.viols)
                                                        if (x.known && x.known_what == kf->what)
                                                                have = true;
                                                if (!have) {
                                                        WorkerOut::V rec;
                                                        rec.v = v;
                                                        rec.seed = run_seed;
                                                        rec.known = true;
                                                        rec.known_what = kf->what;
                                                        out.viols.push_back(rec);
                                                }
                                                continue;
                                        }
                                        if (out.viols.size() >= 6)
                                                continue;
                                        WorkerOut::V rec;
                                        rec.v = v;
                                        rec.seed = run_seed;
                                        // gate 1: same plan again in-process, same log hash and same violation
                                        // (a hang costs the watchdog time on every execution: re-run once, do not shrink)
                                        const bool hang = v.oracle == "hang";
                                        if (hang)
                                                stop_worker = true; // every further hang would cost the watchdog time again
                                        RunResult r2 = exec_case(p, src);
                                        if ((!hang && r2.log_hash != r.log_hash) || !find_viol(r2, v))
                                                rec.gate_ok = false;
                                        Plan mp = p;
                                        int reruns = 0;
                                        if (rec.gate_ok && !hang)
                                                mp = shrink_plan(p, src, v, &reruns);
                                        RunResult r3 = exec_case(mp, src);
                                        const Violation *mv = find_viol(r3, v);
                                        if (!mv) {
                                                mp = p;
                                                mv = &v;
                                        }
                                        rec.v = *mv;
                                        char path[512];
                                        snprintf(path, sizeof path, "%s/replays/%s-%llu-%s.json", od.c_str(), cfg.prop.c_str(),
                                                 (unsigned long long) run_seed, v.oracle.c_str());
                                        write_file(path, replay_json(mp, *mv, (int) p.ops.size(), reruns));
                                        rec.replay = path;
                                        // gate 2: fresh process. It also decides when the in-process re-run did not reproduce:
                                        // a library that keeps state across runs (statics) behaves differently the second time
                                        // in one process, but the same again in a new one
                                        const bool gate1_failed = !rec.gate_ok;
                                        if (gate1_failed)
                                                rec.gate_ok = true;
                                        if (rec.gate_ok) {
                                                pid_t c2 = fork();
                                                if (c2 == 0) {
                                                        int dn = open("/dev/null", 1);
                                                        dup2(dn, 1);
                                                        execl(cfg.self_path.c_str(), cfg.self_path.c_str(), "replay", path,
                                                              (char *) nullptr);
                                                        _exit(3);
                                                }
                                                int st = 0;
                                                waitpid(c2, &st, 0);
                                                if (!(WIFEXITED(st) && WEXITSTATUS(st) == 1))
                                                        rec.gate_ok = false;
                                        }
                                        if (const KnownFinding *k = match_known(known, rec.v)) {
                                                rec.known = true;
                                                rec.known_what = k->what;
                                        }
                                        out.viols.push_back(rec);
                                }
                        }
                        char path[300];
                        snprintf(path, sizeof path, "%s-%d.json", tmpl, w);
                        write_worker_out(path, out);
                        fflush(stdout);
                        _exit(0);
                }
                pids.push_back(pid);
        }
        bool worker_died = false;
        for (pid_t pid : pids) {
                int st = 0;
                waitpid(pid, &st, 0);
                if (!WIFEXITED(st) || WEXITSTATUS(st) != 0)
                        worker_died = true;
        }
        // merge
        WorkerOut all;
        for (int w = 0; w < W; w++) {
                char path[300];
                snprintf(path, sizeof path, "%s-%d.json", tmpl, w);
                std::string txt;
                if (!read_file(path, txt)) {
                        worker_died = true;
                        continue;
                }
                unlink(path);
                JP v = json_parse(txt);
                if (!v)
                        continue;
                all.runs += (uint64_t) v->geti("runs");
                if (JP c = v->get("ctr"))
                        for (size_t i = 0; i < c->a.size() && i < CT_N; i++) {
                                if (i == CT_MAX_INFLIGHT)
                                        all.ctr[i] = std::max(all.ctr[i], (uint64_t) c->a[i]->i);
                                else
                                        all.ctr[i] += (uint64_t) c->a[i]->i;
                        }
                if (JP s = v->get("states"))
                        for (auto &x : s->a)
                                all.states.insert(strtoull(x->s.c_str(), nullptr, 10));
                if (JP s = v->get("cfgs"))
                        for (auto &kv : s->o)
                                all.cfgs[kv.first] += (uint64_t) kv.second->i;
                if (JP s = v->get("viols"))
                        for (auto &x : s->a) {
                                WorkerOut::V rec;
                                rec.v.prop = x->gets("prop");
                                rec.v.oracle = x->gets("oracle");
                                rec.v.detail = x->gets("detail");
                                rec.v.key = x->gets("key");
                                rec.replay = x->gets("replay");
                                rec.known = x->geti("known");
                                rec.known_what = x->gets("known_what");
                                rec.seed = x->getu("seed");
                                rec.gate_ok = x->geti("gate_ok");
                                all.viols.push_back(rec);
                        }
                if (JP s = v->get("notes"))
                        for (auto &x : s->a)
                                if (all.notes.size() < 30)
                                        all.notes.push_back(x->s);
                if (JP s = v->get("samples"))
                        for (auto &x : s->a) {
                                // re-serialise is overkill: keep raw text by re-dumping minimal fields
                                JW w2;
                                w2.obj();
                                w2.str("run_seed", x->gets("run_seed"));
                                w2.arr("variants");
                                if (JP vv = x->get("variants"))
                                        for (auto &e : vv->a)
                                                w2.astr(e->s);
                                w2.end_arr();
                                w2.num("n_ops", x->geti("n_ops")).num("warmup", x->geti("warmup"));
                                w2.arr("ops");
                                if (JP oo = x->get("ops"))
                                        for (auto &e : oo->a)
                                                w2.astr(e->s);
                                w2.end_arr();
                                w2.end_obj();
                                if (all.samples.size() < 3)
                                        all.samples.push_back(w2.out);
                        }
        }
        const double wall = now_s() - t0;

        // report
        int n_viol = 0, n_known = 0, n_nondet = 0;
        std::set<std::string> printed;
        std::map<std::string, int> known_hits; // listed finding -> workers that met it in this run
        for (auto &n : all.notes)
                printf("%s\n", n.c_str());
        for (auto &x : all.viols) {
                std::string sig = x.v.oracle + "|" + x.v.key;
                if (x.known) {
                        n_known++;
                        known_hits[x.known_what]++;
                        if (!x.replay.empty())
                                unlink(x.replay.c_str());
                        continue;
                }
                if (!x.gate_ok) {
                        n_nondet++;
                        printf("INTERNAL: violation did not reproduce (simulator nondeterminism?) property=%s oracle=%s seed=%llu %s\n",
                               x.v.prop.c_str(), x.v.oracle.c_str(), (unsigned long long) x.seed, x.v.detail.c_str());
                        continue;
                }
                n_viol++;
                if (printed.count(sig) && !x.v.key.empty())
                        continue;
                printed.insert(sig);
                printf("VIOLATION property=%s replay=%s\n", x.v.prop.c_str(), x.replay.c_str());
                printf("  oracle=%s seed=%llu key=%s\n  %s\n", x.v.oracle.c_str(), (unsigned long long) x.seed, x.v.key.c_str(),
                       x.v.detail.c_str());
        }
        // one line per listed finding of this property, whether or not this run met it
        for (auto &k : known)
                if (k.kind == "finding" && k.prop == cfg.prop) {
                        auto it = known_hits.find(k.what);
                        printf("KNOWN-FINDING: property=%s %s [%s; met by %d of %d workers in this run]\n", cfg.prop.c_str(), k.what.c_str(),
                               k.key.c_str(), it == known_hits.end() ? 0 : it->second, W);
                }

        // evidence
        JW w;
        w.obj();
        w.str("property_id", cfg.prop).str("tier", cfg.tier).num("seed", (int64_t) cfg.seed).str("level", cfg.level);
        w.obj("coverage");
        w.num("evaluations", (int64_t) all.runs);
        w.num("distinct_nontrivial", (int64_t) all.states.size());
        w.str("rule", cfg.rule);
        w.arr("samples");
        for (auto &s : all.samples)
                w.raw(nullptr, s);
        w.end_arr();
        w.num("simulated_runs", (int64_t) all.runs);
        w.dbl("runs_per_hour", wall > 0 ? (double) all.runs / wall * 3600.0 : 0);
        w.num("steps_api_calls", (int64_t) all.ctr[CT_CALLS]);
        w.str("simulated_time", "none: the system has no clock; the simulator's time is the step counter (library calls)");
        w.obj("counters");
        for (int i = 0; i < CT_N; i++)
                w.num(ctr_names[i], (int64_t) all.ctr[i]);
        w.end_obj();
        w.obj("variant_configs_run");
        for (auto &kv : all.cfgs)
                w.num(kv.first.c_str(), (int64_t) kv.second);
        w.end_obj();
        w.num("workers", W);
        w.num("known_findings_hit", n_known);
        w.str("components_real", "all library code: C and assembly of libIPSec_MB.a rebuilt from /repo's working tree");
        w.str("components_stubbed", "none in this profile (caller memory is the simulator's guarded arena)");
        if (extra_cov)
                w.raw("extra", extra_cov->out);
        w.end_obj();
        w.arr("assumptions");
        for (auto &a : cfg.assumptions)
                w.astr(a);
        w.end_arr();
        w.dbl("wall_s", wall);
        w.num("violations", n_viol);
        w.end_obj();
        write_file(od + "/evidence/" + cfg.prop + ".json", w.out);

        printf("%s %s: %llu runs, %llu library calls, %zu distinct (state,op) pairs, %.1f s, %d violation(s), %d known finding hit(s)\n",
               cfg.prop.c_str(), cfg.tier.c_str(), (unsigned long long) all.runs, (unsigned long long) all.ctr[CT_CALLS],
               all.states.size(), wall, n_viol, n_known);
        if (n_viol)
                return 1;
        if (worker_died || n_nondet) {
                printf("INTERNAL: %s\n", worker_died ? "a worker died outside a simulated run" : "nondeterminism");
                return 2;
        }
        return 0;
}

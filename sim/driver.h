// Batch driver: forked workers, violation gate (same-plan twice + fresh-process
// replay), minimisation, known-findings matching, evidence writer.
#pragma once
#include "interp.h"
#include "plangen.h"

struct BatchCfg {
        std::string prop;       // property id owned by this check
        std::string tier = "quick";
        uint64_t seed = 1;      // VERIF_SEED
        int workers = 16;
        uint64_t runs = 1000;   // number of simulated runs (fixed => repeatable)
        double budget_s = 120;  // wall-clock safety cap
        std::string level = "exploration";
        std::string rule;       // how cases are generated and what counts as distinct/non-trivial
        std::vector<std::string> assumptions;
        std::string self_path;  // argv[0] for fresh-process replays
};

// A "case source" produces the plan for run index i and (optionally) post-processes a result
// (e.g. history comparisons that need several executions). Returns extra violations.
struct CaseSource {
        std::function<Plan(uint64_t run_seed, uint64_t index)> make;
        // optional cross-execution oracle (C15/C16/C17/C08...): gets the plan and its result
        std::function<void(const Plan &, const RunResult &, std::vector<Violation> &)> post;
        bool isolate = false; // every execution in a forked child (C17: process-wide state must not carry over between runs)
};

struct BatchOut {
        uint64_t evaluations = 0;
        uint64_t violations = 0, known = 0;
        double wall_s = 0;
};

int run_batch(const BatchCfg &cfg, const CaseSource &src, JW *extra_cov = nullptr);
int replay_file(const std::string &path, bool verbose);

// minimisation (ddmin over ops + per-job shrinking) preserving prop+oracle(+key)
Plan shrink_plan(const Plan &p, const CaseSource &src, const Violation &target, int *reruns);

struct KnownFinding {
        std::string kind, prop, oracle, key, what;
};
std::vector<KnownFinding> load_known(const std::string &path);
const KnownFinding *match_known(const std::vector<KnownFinding> &k, const Violation &v);
std::string verif_dir();
std::string out_dir();

#include "gen.h"
#include "arena.h"
#include <algorithm>

const std::vector<int> k_generic_ciphers = {
        IMB_CIPHER_CBC,          IMB_CIPHER_CNTR,        IMB_CIPHER_ECB,
        IMB_CIPHER_CFB,          IMB_CIPHER_CNTR_BITLEN, IMB_CIPHER_CBCS_1_9,
        IMB_CIPHER_DOCSIS_SEC_BPI, IMB_CIPHER_DES,       IMB_CIPHER_DOCSIS_DES,
        IMB_CIPHER_DES3,         IMB_CIPHER_ZUC_EEA3,    IMB_CIPHER_SNOW3G_UEA2_BITLEN,
        IMB_CIPHER_KASUMI_UEA1_BITLEN, IMB_CIPHER_CHACHA20, IMB_CIPHER_SNOW_V,
        IMB_CIPHER_SM4_ECB,      IMB_CIPHER_SM4_CBC,     IMB_CIPHER_SM4_CNTR
};
const std::vector<int> k_generic_hashes = {
        IMB_AUTH_HMAC_SHA_1,   IMB_AUTH_HMAC_SHA_224, IMB_AUTH_HMAC_SHA_256, IMB_AUTH_HMAC_SHA_384,
        IMB_AUTH_HMAC_SHA_512, IMB_AUTH_AES_XCBC,     IMB_AUTH_MD5,          IMB_AUTH_AES_CMAC,
        IMB_AUTH_SHA_1,        IMB_AUTH_SHA_224,      IMB_AUTH_SHA_256,      IMB_AUTH_SHA_384,
        IMB_AUTH_SHA_512,      IMB_AUTH_AES_CMAC_BITLEN, IMB_AUTH_ZUC_EIA3_BITLEN, IMB_AUTH_SNOW3G_UIA2_BITLEN,
        IMB_AUTH_KASUMI_UIA1,  IMB_AUTH_AES_GMAC_128, IMB_AUTH_AES_GMAC_192, IMB_AUTH_AES_GMAC_256,
        IMB_AUTH_AES_CMAC_256, IMB_AUTH_POLY1305,     IMB_AUTH_ZUC256_EIA3_BITLEN,
        IMB_AUTH_CRC32_ETHERNET_FCS, IMB_AUTH_CRC32_SCTP, IMB_AUTH_CRC32_WIMAX_OFDMA_DATA,
        IMB_AUTH_CRC24_LTE_A,  IMB_AUTH_CRC24_LTE_B,  IMB_AUTH_CRC16_X25,    IMB_AUTH_CRC16_FP_DATA,
        IMB_AUTH_CRC11_FP_HEADER, IMB_AUTH_CRC10_IUUP_DATA, IMB_AUTH_CRC8_WIMAX_OFDMA_HCS,
        IMB_AUTH_CRC7_FP_HEADER, IMB_AUTH_CRC6_IUUP_HEADER, IMB_AUTH_GHASH, IMB_AUTH_SM3, IMB_AUTH_HMAC_SM3
};
const std::vector<int> k_aead_ciphers = { IMB_CIPHER_GCM,         IMB_CIPHER_CCM,
                                          IMB_CIPHER_CHACHA20_POLY1305, IMB_CIPHER_SNOW_V_AEAD,
                                          IMB_CIPHER_SM4_GCM,     IMB_CIPHER_PON_AES_CNTR,
                                          IMB_CIPHER_DOCSIS_SEC_BPI };

std::vector<int>
cipher_key_lens(int c)
{
        switch (c) {
        case IMB_CIPHER_CBC:
        case IMB_CIPHER_CNTR:
        case IMB_CIPHER_ECB:
        case IMB_CIPHER_CFB:
        case IMB_CIPHER_CNTR_BITLEN:
        case IMB_CIPHER_GCM:
        case IMB_CIPHER_GCM_SGL: return { 16, 24, 32 };
        case IMB_CIPHER_CBCS_1_9: return { 16 };
        case IMB_CIPHER_DOCSIS_SEC_BPI:
        case IMB_CIPHER_CCM:
        case IMB_CIPHER_ZUC_EEA3: return { 16, 32 };
        case IMB_CIPHER_DES:
        case IMB_CIPHER_DOCSIS_DES: return { 8 };
        case IMB_CIPHER_DES3: return { 24 };
        case IMB_CIPHER_PON_AES_CNTR: return { 16, 0 };
        case IMB_CIPHER_SNOW3G_UEA2_BITLEN:
        case IMB_CIPHER_KASUMI_UEA1_BITLEN:
        case IMB_CIPHER_SM4_ECB:
        case IMB_CIPHER_SM4_CBC:
        case IMB_CIPHER_SM4_CNTR:
        case IMB_CIPHER_SM4_GCM: return { 16 };
        case IMB_CIPHER_CHACHA20:
        case IMB_CIPHER_CHACHA20_POLY1305:
        case IMB_CIPHER_CHACHA20_POLY1305_SGL:
        case IMB_CIPHER_SNOW_V:
        case IMB_CIPHER_SNOW_V_AEAD: return { 32 };
        case IMB_CIPHER_NULL: return { 0 };
        }
        return { 16 };
}

int
aead_hash_for(int c)
{
        switch (c) {
        case IMB_CIPHER_GCM: return IMB_AUTH_AES_GMAC;
        case IMB_CIPHER_GCM_SGL: return IMB_AUTH_GCM_SGL;
        case IMB_CIPHER_CCM: return IMB_AUTH_AES_CCM;
        case IMB_CIPHER_CHACHA20_POLY1305: return IMB_AUTH_CHACHA20_POLY1305;
        case IMB_CIPHER_CHACHA20_POLY1305_SGL: return IMB_AUTH_CHACHA20_POLY1305_SGL;
        case IMB_CIPHER_SNOW_V_AEAD: return IMB_AUTH_SNOW_V_AEAD;
        case IMB_CIPHER_SM4_GCM: return IMB_AUTH_SM4_GCM;
        case IMB_CIPHER_PON_AES_CNTR: return IMB_AUTH_PON_CRC_BIP;
        }
        return 0;
}

bool
suite_is_aead(const Suite &s)
{
        return aead_hash_for(s.cipher) != 0 || s.hash == IMB_AUTH_DOCSIS_CRC32;
}

std::string
suite_str(const Suite &s)
{
        char b[128];
        snprintf(b, sizeof b, "%s-%u/%s/%s/%s", cipher_name(s.cipher), s.key_len * 8, hash_name(s.hash),
                 s.dir == IMB_DIR_ENCRYPT ? "enc" : "dec", s.order == IMB_ORDER_CIPHER_HASH ? "C>H" : "H>C");
        return b;
}

static void
aead_order(Suite &s)
{
        // documented orders for the combined modes
        const bool enc = s.dir == IMB_DIR_ENCRYPT;
        if (s.cipher == IMB_CIPHER_CCM || s.hash == IMB_AUTH_DOCSIS_CRC32 || s.cipher == IMB_CIPHER_PON_AES_CNTR)
                s.order = enc ? IMB_ORDER_HASH_CIPHER : IMB_ORDER_CIPHER_HASH;
        else
                s.order = enc ? IMB_ORDER_CIPHER_HASH : IMB_ORDER_HASH_CIPHER;
}

Suite
gen_suite(Rng &r, int kind)
{
        Suite s;
        if (kind < 0) {
                uint32_t x = r.below(100);
                kind = x < 30 ? 0 : x < 55 ? 1 : x < 80 ? 2 : 3;
                // the empty suite (NULL cipher, NULL hash) is a valid job that completes at once without touching anything
                if (r.below(50) == 0) {
                        s.dir = IMB_DIR_ENCRYPT;
                        s.order = r.chance(0.5) ? IMB_ORDER_CIPHER_HASH : IMB_ORDER_HASH_CIPHER;
                        return s;
                }
        }
        s.dir = r.chance(0.5) ? IMB_DIR_ENCRYPT : IMB_DIR_DECRYPT;
        if (kind == 0 || kind == 2) {
                s.cipher = (uint8_t) r.pick(k_generic_ciphers);
                s.key_len = (uint16_t) r.pick(cipher_key_lens(s.cipher));
        }
        if (kind == 1 || kind == 2)
                s.hash = (uint8_t) r.pick(k_generic_hashes);
        if (kind == 0)
                s.order = IMB_ORDER_CIPHER_HASH;
        else if (kind == 1)
                s.order = IMB_ORDER_HASH_CIPHER;
        else if (kind == 2)
                s.order = r.chance(0.5) ? IMB_ORDER_CIPHER_HASH : IMB_ORDER_HASH_CIPHER;
        else {
                s.cipher = (uint8_t) r.pick(k_aead_ciphers);
                s.key_len = (uint16_t) r.pick(cipher_key_lens(s.cipher));
                if (s.cipher == IMB_CIPHER_DOCSIS_SEC_BPI)
                        s.hash = IMB_AUTH_DOCSIS_CRC32;
                else
                        s.hash = (uint8_t) aead_hash_for(s.cipher);
                aead_order(s);
        }
        return s;
}

std::vector<Suite>
all_cipher_suites()
{
        std::vector<Suite> v;
        for (int c : k_generic_ciphers)
                for (int k : cipher_key_lens(c))
                        for (int d = 1; d <= 2; d++) {
                                Suite s;
                                s.cipher = (uint8_t) c;
                                s.key_len = (uint16_t) k;
                                s.dir = (uint8_t) d;
                                v.push_back(s);
                        }
        return v;
}
std::vector<Suite>
all_hash_suites()
{
        std::vector<Suite> v;
        for (int h : k_generic_hashes) {
                Suite s;
                s.hash = (uint8_t) h;
                s.order = IMB_ORDER_HASH_CIPHER;
                v.push_back(s);
        }
        return v;
}
std::vector<Suite>
all_aead_suites()
{
        std::vector<Suite> v;
        for (int c : k_aead_ciphers)
                for (int k : cipher_key_lens(c))
                        for (int d = 1; d <= 2; d++) {
                                Suite s;
                                s.cipher = (uint8_t) c;
                                s.key_len = (uint16_t) k;
                                s.dir = (uint8_t) d;
                                s.hash = c == IMB_CIPHER_DOCSIS_SEC_BPI ? (uint8_t) IMB_AUTH_DOCSIS_CRC32
                                                                        : (uint8_t) aead_hash_for(c);
                                aead_order(s);
                                v.push_back(s);
                        }
        return v;
}

// ---- length rules, in the algorithm's own unit (bytes, or bits for *_BITLEN)
struct LenRule {
        uint32_t mn, mx, mult;
};
static LenRule
cipher_len_rule(int c, uint32_t cap)
{
        const uint32_t mb = 65534 < cap ? 65534 : cap;
        switch (c) {
        case IMB_CIPHER_CBC:
        case IMB_CIPHER_ECB:
        case IMB_CIPHER_CFB:
        case IMB_CIPHER_CBCS_1_9:
        case IMB_CIPHER_SM4_ECB:
        case IMB_CIPHER_SM4_CBC: return { 16, mb & ~15u, 16 };
        case IMB_CIPHER_DES:
        case IMB_CIPHER_DES3: return { 8, mb & ~7u, 8 };
        case IMB_CIPHER_DOCSIS_SEC_BPI:
        case IMB_CIPHER_DOCSIS_DES: return { 1, mb, 1 };
        case IMB_CIPHER_CNTR:
        case IMB_CIPHER_CHACHA20:
        case IMB_CIPHER_SNOW_V:
        case IMB_CIPHER_SM4_CNTR: return { 1, cap, 1 };
        case IMB_CIPHER_CNTR_BITLEN: return { 1, mb * 8, 1 };
        case IMB_CIPHER_ZUC_EEA3: return { 1, 8188 < cap ? 8188 : cap, 1 };
        case IMB_CIPHER_SNOW3G_UEA2_BITLEN: return { 1, (mb & ~3u) * 8, 1 };
        case IMB_CIPHER_KASUMI_UEA1_BITLEN: return { 1, 20000 < cap * 8 ? 20000 : cap * 8, 1 };
        case IMB_CIPHER_GCM:
        case IMB_CIPHER_GCM_SGL:
        case IMB_CIPHER_SM4_GCM:
        case IMB_CIPHER_CHACHA20_POLY1305:
        case IMB_CIPHER_CHACHA20_POLY1305_SGL:
        case IMB_CIPHER_SNOW_V_AEAD: return { 0, cap, 1 };
        case IMB_CIPHER_CCM: return { 0, mb, 1 };
        }
        return { 0, 0, 1 };
}
static LenRule
hash_len_rule(int h, uint32_t cap)
{
        const uint32_t mb = 65534 < cap ? 65534 : cap;
        switch (h) {
        case IMB_AUTH_HMAC_SHA_1:
        case IMB_AUTH_HMAC_SHA_224:
        case IMB_AUTH_HMAC_SHA_256:
        case IMB_AUTH_HMAC_SHA_384:
        case IMB_AUTH_HMAC_SHA_512:
        case IMB_AUTH_MD5:
        case IMB_AUTH_HMAC_SM3: return { 1, mb, 1 };
        case IMB_AUTH_AES_CMAC_BITLEN: return { 0, mb * 8, 1 };
        case IMB_AUTH_ZUC_EIA3_BITLEN:
        case IMB_AUTH_ZUC256_EIA3_BITLEN: return { 1, 65504 < cap * 8 ? 65504 : cap * 8, 1 };
        case IMB_AUTH_SNOW3G_UIA2_BITLEN: return { 1, mb * 8, 1 };
        case IMB_AUTH_KASUMI_UIA1: return { 9, 2500 < cap ? 2500 : (cap < 9 ? 9 : cap), 1 };
        case IMB_AUTH_NULL: return { 0, 0, 1 };
        default: return { 0, mb, 1 };
        }
}

static uint32_t
pick_len(Rng &r, LenRule lr, int profile)
{
        if (lr.mx < lr.mn)
                lr.mx = lr.mn;
        if (profile == LEN_MIXED) {
                uint32_t x = r.below(100);
                profile = x < 25 ? LEN_TINY : x < 60 ? LEN_EDGE : x < 88 ? LEN_MEDIUM : x < 96 ? LEN_4K : LEN_MAX;
        }
        const bool bits = false;
        (void) bits;
        uint64_t v = 0;
        static const uint32_t edges[] = { 8, 16, 32, 48, 55, 56, 64, 80, 96, 111, 112, 119, 120, 128, 192, 240,
                                          256, 320, 384, 448, 512, 768, 1024, 1536, 2048 };
        switch (profile) {
        case LEN_TINY: v = lr.mn + r.below(80 * lr.mult); break;
        case LEN_EDGE: {
                uint32_t e = edges[r.below(sizeof edges / sizeof edges[0])];
                int d = (int) r.below(5) - 2;
                v = (uint64_t) ((int64_t) e + d < 0 ? 0 : (int64_t) e + d);
                break;
        }
        case LEN_MEDIUM: v = r.below(2100); break;
        case LEN_4K: v = 3900 + r.below(500); break;
        case LEN_MAX: v = lr.mx > 300 ? lr.mx - r.below(300) : lr.mx; break;
        }
        if (v < lr.mn)
                v = lr.mn;
        if (v > lr.mx)
                v = lr.mx;
        v -= v % lr.mult;
        if (v < lr.mn)
                v = lr.mn;
        return (uint32_t) v;
}

uint32_t
suite_len_mult(const Suite &s)
{
        if (s.cipher != IMB_CIPHER_NULL)
                return cipher_len_rule(s.cipher, 65534).mult;
        return 1;
}
void
suite_len_range(const Suite &s, uint32_t &mn, uint32_t &mx)
{
        LenRule lr = s.cipher != IMB_CIPHER_NULL ? cipher_len_rule(s.cipher, 65534) : hash_len_rule(s.hash, 65534);
        mn = lr.mn;
        mx = lr.mx;
}

static uint16_t
pick_tag_len(Rng &r, int h)
{
        switch (h) {
        case IMB_AUTH_HMAC_SHA_1: return r.chance(0.5) ? 12 : 20;
        case IMB_AUTH_HMAC_SHA_224: return r.chance(0.5) ? 14 : 28;
        case IMB_AUTH_HMAC_SHA_256: return r.chance(0.5) ? 16 : 32;
        case IMB_AUTH_HMAC_SHA_384: return r.chance(0.5) ? 24 : 48;
        case IMB_AUTH_HMAC_SHA_512: return r.chance(0.5) ? 32 : 64;
        case IMB_AUTH_MD5: return r.chance(0.5) ? 12 : 16;
        case IMB_AUTH_AES_XCBC: return 12;
        case IMB_AUTH_SHA_1: return 20;
        case IMB_AUTH_SHA_224: return 28;
        case IMB_AUTH_SHA_256: return 32;
        case IMB_AUTH_SHA_384: return 48;
        case IMB_AUTH_SHA_512: return 64;
        case IMB_AUTH_AES_CMAC:
        case IMB_AUTH_AES_CMAC_BITLEN:
        case IMB_AUTH_AES_CMAC_256:
        case IMB_AUTH_AES_GMAC:
        case IMB_AUTH_GCM_SGL:
        case IMB_AUTH_SM4_GCM:
        case IMB_AUTH_AES_GMAC_128:
        case IMB_AUTH_AES_GMAC_192:
        case IMB_AUTH_AES_GMAC_256:
        case IMB_AUTH_GHASH: {
                uint32_t x = r.below(10);
                return x < 4 ? 16 : x < 6 ? 12 : x < 7 ? 4 : x < 8 ? 8 : (uint16_t) r.range(1, 16);
        }
        case IMB_AUTH_AES_CCM: return (uint16_t) (4 + 2 * r.below(7));
        case IMB_AUTH_ZUC256_EIA3_BITLEN: {
                static const uint16_t t[] = { 4, 8, 16 };
                return t[r.below(3)];
        }
        case IMB_AUTH_PON_CRC_BIP: return 8;
        case IMB_AUTH_POLY1305:
        case IMB_AUTH_CHACHA20_POLY1305:
        case IMB_AUTH_CHACHA20_POLY1305_SGL:
        case IMB_AUTH_SNOW_V_AEAD: return 16;
        case IMB_AUTH_SM3:
        case IMB_AUTH_HMAC_SM3: return r.chance(0.6) ? 32 : (uint16_t) r.range(1, 32);
        case IMB_AUTH_NULL: return 0;
        default: return 4; // 3GPP MACs, CRCs, DOCSIS CRC
        }
}

static uint16_t
pick_iv_len(Rng &r, const Suite &s)
{
        switch (s.cipher) {
        case IMB_CIPHER_CBC:
        case IMB_CIPHER_CNTR_BITLEN:
        case IMB_CIPHER_CFB:
        case IMB_CIPHER_CBCS_1_9:
        case IMB_CIPHER_DOCSIS_SEC_BPI:
        case IMB_CIPHER_SNOW3G_UEA2_BITLEN:
        case IMB_CIPHER_SNOW_V:
        case IMB_CIPHER_SNOW_V_AEAD:
        case IMB_CIPHER_SM4_CBC: return 16;
        case IMB_CIPHER_PON_AES_CNTR: return s.key_len ? 16 : 0;
        case IMB_CIPHER_CNTR:
        case IMB_CIPHER_SM4_CNTR: return r.chance(0.5) ? 16 : 12;
        case IMB_CIPHER_DES:
        case IMB_CIPHER_DES3:
        case IMB_CIPHER_DOCSIS_DES:
        case IMB_CIPHER_KASUMI_UEA1_BITLEN: return 8;
        case IMB_CIPHER_ZUC_EEA3: return s.key_len == 16 ? 16 : (r.chance(0.5) ? 25 : 23);
        case IMB_CIPHER_CHACHA20:
        case IMB_CIPHER_CHACHA20_POLY1305:
        case IMB_CIPHER_CHACHA20_POLY1305_SGL:
        case IMB_CIPHER_SM4_GCM: return 12;
        case IMB_CIPHER_GCM:
        case IMB_CIPHER_GCM_SGL: {
                uint32_t x = r.below(10);
                return x < 6 ? 12 : x < 7 ? 16 : x < 8 ? 8 : (uint16_t) r.range(1, 64);
        }
        case IMB_CIPHER_CCM: return (uint16_t) r.range(7, 13);
        }
        return 0;
}

static uint32_t
pick_aad(Rng &r, uint32_t max)
{
        uint32_t x = r.below(10);
        uint32_t v = x < 2 ? 0 : x < 4 ? 8 + 4 * r.below(3) : x < 7 ? r.below(65) : x < 9 ? r.below(300) : r.below(1100);
        return v > max ? max : v;
}

static void
place_objects(Rng &r, JobSpec &j, const GenOpts &o)
{
        if (o.guard) {
                for (int i = 0; i < O_NOBJ; i++) {
                        uint32_t x = r.below(100);
                        j.place[i] = x < 45 ? arena::PLACE_MID : x < 85 ? arena::PLACE_END : arena::PLACE_START;
                }
        }
        if (o.misalign) {
                j.mis[0] = r.chance(0.5) ? 0 : (uint8_t) r.below(64);
                j.mis[1] = r.chance(0.5) ? 0 : (uint8_t) r.below(64);
        }
}

static JobSpec
gen_job_impl(Rng &r, const Suite &s, const GenOpts &o, bool force, uint32_t flen)
{
        JobSpec j;
        j.cipher = s.cipher;
        j.dir = s.dir;
        j.hash = s.hash;
        j.order = s.order;
        j.key_len = s.key_len;
        j.seed = r.next();
        j.key_seed = r.next();
        // segmented entry points (SGL jobs/streams, init/update/finalize): 3 in 5 put every segment in its own object
        j.scatter = ((j.seed >> 20) % 5) < 3 ? (uint8_t) (1 + (j.seed >> 24) % 250) : 0;
        j.iv_len = pick_iv_len(r, s);
        j.iv_kind = (o.special_iv && r.chance(0.35)) ? (uint8_t) r.range(1, IV_NKINDS - 1) : (uint8_t) IV_RANDOM;
        j.tag_len = pick_tag_len(r, s.hash);
        j.inplace = (!o.oop || r.chance(0.5)) ? 1 : 0;
        j.minimal = r.chance(0.25) ? 1 : 0;
        place_objects(r, j, o);
        const uint32_t cap = o.max_len;
        const uint32_t off = !o.offsets ? 0 : r.chance(0.6) ? 0 : r.chance(0.5) ? r.below(33) : 16 * r.below(5);

        // ---- combined modes with their own geometry
        if (s.cipher == IMB_CIPHER_PON_AES_CNTR) {
                uint32_t pli = force ? flen : 0;
                if (!force) {
                        uint32_t x = r.below(10);
                        pli = x < 2 ? r.range(1, 8) : x < 8 ? r.range(1, 2000) : r.range(1, 16383);
                }
                if (pli < 1)
                        pli = 1;
                if (pli > 16383)
                        pli = 16383;
                if (pli > cap && cap >= 8)
                        pli = cap & ~3u;
                j.pon_pli = pli;
                uint32_t padded = (pli + 3) & ~3u;
                j.h_off = off;
                j.h_len = 8 + padded;
                j.c_off = off + 8;
                j.c_len = s.key_len ? padded : 0;
                j.inplace = 1;
                j.tag_len = 8;
                j.iv_len = s.key_len ? 16 : 0;
                return j;
        }
        if (s.hash == IMB_AUTH_DOCSIS_CRC32) {
                // Ethernet frame of n bytes incl. 4-byte FCS carried over DOCSIS
                uint32_t n = force ? flen : pick_len(r, { 0, 65534 < cap ? 65534 : cap, 1 }, o.len_profile);
                j.inplace = 1;
                j.tag_len = 4;
                j.h_off = off;
                if (!force && n >= 1 && r.below(12) == 0) {
                        // cipher only: a hash length of zero switches the CRC off (validation permits it), the BPI cipher
                        // runs over the given range
                        j.h_len = 0;
                        j.c_off = off;
                        j.c_len = n;
                        return j;
                }
                if (n >= 14 + 4) {
                        j.h_len = n - 4;
                        j.c_off = off + 12;
                        j.c_len = n - 12;
                } else if (n > 4) {
                        j.h_len = n - 4;
                        j.c_off = off + 12;
                        j.c_len = 0;
                } else {
                        j.h_len = 0;
                        j.c_off = off;
                        j.c_len = 0;
                        // a job with nothing to do still needs valid pointers
                }
                return j;
        }
        if (aead_hash_for(s.cipher)) {
                LenRule lr = cipher_len_rule(s.cipher, cap);
                j.c_len = force ? flen : pick_len(r, lr, o.len_profile);
                if (j.c_len > lr.mx)
                        j.c_len = lr.mx;
                j.c_off = off;
                j.h_off = off;
                j.h_len = j.c_len;
                j.aad_len = pick_aad(r, s.cipher == IMB_CIPHER_CCM ? 46 : 1100);
                return j;
        }

        // ---- generic cipher and/or generic hash
        if (s.cipher != IMB_CIPHER_NULL) {
                LenRule lr = cipher_len_rule(s.cipher, cap);
                j.c_len = force ? flen : pick_len(r, lr, o.len_profile);
                if (j.c_len > lr.mx)
                        j.c_len = lr.mx;
                if (j.c_len < lr.mn)
                        j.c_len = lr.mn;
                j.c_len -= j.c_len % lr.mult;
                j.c_off = off;
                if (cipher_off_is_bits(s.cipher)) {
                        // bit offsets: mostly 0, sometimes byte aligned, sometimes not
                        uint32_t x = r.below(10);
                        j.c_off = !o.offsets ? 0 : x < 6 ? 0 : x < 8 ? 8 * r.below(17) : r.below(130);
                        if (s.cipher == IMB_CIPHER_KASUMI_UEA1_BITLEN && j.c_off + j.c_len > 20000)
                                j.c_off = 0;
                }
        }
        if (s.hash != IMB_AUTH_NULL) {
                LenRule lr = hash_len_rule(s.hash, cap);
                if (s.cipher == IMB_CIPHER_NULL && force)
                        j.h_len = flen;
                else if (s.cipher != IMB_CIPHER_NULL && r.chance(0.6)) {
                        // cover the ciphered range (the usual IPsec-like geometry), in the hash's unit
                        uint32_t cb = spec_c_bytes(j);
                        j.h_len = hash_is_bits(s.hash) ? cb * 8 : cb;
                } else
                        j.h_len = pick_len(r, lr, o.len_profile);
                if (j.h_len > lr.mx)
                        j.h_len = lr.mx;
                if (j.h_len < lr.mn)
                        j.h_len = lr.mn;
                j.h_off = !o.offsets ? 0 : r.chance(0.6) ? (cipher_off_is_bits(s.cipher) ? j.c_off / 8 : j.c_off) : r.below(40);
                switch (s.hash) {
                case IMB_AUTH_ZUC_EIA3_BITLEN:
                case IMB_AUTH_SNOW3G_UIA2_BITLEN: j.aiv_len = 16; break;
                case IMB_AUTH_ZUC256_EIA3_BITLEN: j.aiv_len = r.chance(0.5) ? 25 : 23; break;
                case IMB_AUTH_AES_GMAC_128:
                case IMB_AUTH_AES_GMAC_192:
                case IMB_AUTH_AES_GMAC_256: {
                        uint32_t x = r.below(10);
                        j.aiv_len = x < 6 ? 12 : x < 7 ? 16 : (uint16_t) r.range(1, 64);
                        break;
                }
                case IMB_AUTH_GHASH: j.aiv_len = 16; break;
                case IMB_AUTH_MD5: j.hkey_len = (uint8_t) r.range(1, 64); break;
                case IMB_AUTH_HMAC_SHA_1:
                case IMB_AUTH_HMAC_SHA_224:
                case IMB_AUTH_HMAC_SHA_256:
                case IMB_AUTH_HMAC_SM3: j.hkey_len = (uint8_t) (r.chance(0.7) ? r.range(1, 64) : r.range(65, 140)); break;
                case IMB_AUTH_HMAC_SHA_384:
                case IMB_AUTH_HMAC_SHA_512: j.hkey_len = (uint8_t) (r.chance(0.7) ? r.range(1, 128) : r.range(129, 160)); break;
                default: break;
                }
        }
        return j;
}

JobSpec gen_job(Rng &r, const Suite &s, const GenOpts &o) { return gen_job_impl(r, s, o, false, 0); }
JobSpec gen_job_len(Rng &r, const Suite &s, const GenOpts &o, uint32_t len) { return gen_job_impl(r, s, o, true, len); }

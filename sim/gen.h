// Seeded generation of valid JobSpecs (boundary biased).
#pragma once
#include "jobspec.h"

struct Suite {
        uint8_t cipher = IMB_CIPHER_NULL, dir = IMB_DIR_ENCRYPT, hash = IMB_AUTH_NULL, order = IMB_ORDER_CIPHER_HASH;
        uint16_t key_len = 0;
};
std::string suite_str(const Suite &s);

enum LenProfile { LEN_TINY = 0, LEN_EDGE, LEN_MEDIUM, LEN_4K, LEN_MAX, LEN_MIXED, LEN_NPROF };

struct GenOpts {
        int len_profile = LEN_MIXED;
        uint32_t max_len = 65534; // cap on message bytes
        bool offsets = true;      // non-zero cipher/hash offsets
        bool oop = true;          // out-of-place allowed
        bool guard = false;       // place objects against guard pages
        bool special_iv = true;
        bool misalign = true;
};

extern const std::vector<int> k_generic_ciphers; // non-AEAD cipher modes (without NULL)
extern const std::vector<int> k_generic_hashes;  // hashes that may be paired with any generic cipher
extern const std::vector<int> k_aead_ciphers;    // GCM, CCM, CHACHA20_POLY1305, SNOW_V_AEAD, SM4_GCM, PON, DOCSIS+CRC (special)
std::vector<int> cipher_key_lens(int cipher);
int aead_hash_for(int cipher); // paired hash or 0

// a random suite: kind 0 cipher-only, 1 hash-only, 2 chained generic, 3 AEAD/combined, -1 any
Suite gen_suite(Rng &r, int kind = -1);
// all cipher-only suites / hash-only suites / aead suites (enumeration helpers)
std::vector<Suite> all_cipher_suites();
std::vector<Suite> all_hash_suites();
std::vector<Suite> all_aead_suites();
bool suite_is_aead(const Suite &s);

JobSpec gen_job(Rng &r, const Suite &s, const GenOpts &o);
// force a particular message length (bytes or bits as the suite counts it), everything else random
JobSpec gen_job_len(Rng &r, const Suite &s, const GenOpts &o, uint32_t len);
uint32_t suite_len_mult(const Suite &s);
void suite_len_range(const Suite &s, uint32_t &mn, uint32_t &mx); // in the suite's own unit

#include "interp.h"
#include <signal.h>
#include <setjmp.h>
#include <ucontext.h>
#include <stdarg.h>
#include <unistd.h>
#include <algorithm>
#include <memory>
#include <unordered_map>
#include <set>
#include "../ref/prims.h"
#include "../ref/wireless.h"

const char *const op_names[OP_NKINDS] = { "SUBMIT", "GET_COMPLETED", "FLUSH", "FLUSH_ALL", "QUEUE_SIZE", "GET_NEXT",
                                          "BURST", "FLUSH_BURST", "REINIT", "REATTACH", "MISUSE", "MARK",
                                          "SYNC_BURST", "DIRECT", "KEYPREP", "SGL_SEG" };

const char *const ctr_names[CT_N] = {
        "ops", "library_calls", "jobs_submitted", "jobs_completed", "jobs_rejected_invalid", "submit_returned_null",
        "submit_returned_job", "flush_with_jobs_in_flight", "flush_on_empty", "get_completed_null_while_parked",
        "get_completed_returned_job", "queue_full_forced_completion", "ring_wrapped", "bursts", "burst_straddled_ring_end",
        "burst_rejected", "burst_got_fewer_slots", "flush_bursts", "reinit_with_jobs_in_flight", "reinit_idle",
        "reattach_with_jobs_in_flight", "reattach_idle", "api_misuse_injected", "solo_runs", "reference_checks",
        "reference_not_admitted", "memory_checks", "objects_end_flush_to_guard", "objects_start_flush_to_guard",
        "chained_jobs", "out_of_place_jobs", "special_iv_jobs", "max_jobs_in_flight", "residue_scans", "sync_bursts",
        "direct_calls", "keyprep_calls", "sgl_segments", "cross_variant_runs", "ops_degraded_to_noop",
        "reattach_through_other_library_image_with_old_image_inaccessible", "preemption_inside_a_call_fired", "preemption_point_not_reached",
        "invalid_scatter_gather_jobs_submitted"
};

// ------------------------------------------------------------------ plan <-> JSON
std::string
plan_to_json(const Plan &p)
{
        JW w;
        w.obj();
        w.unum("seed", p.seed).str("profile", p.profile).str("prop", p.prop);
        w.arr("task_cfg");
        for (int c : p.task_cfg)
                w.anum(c);
        w.end_arr();
        w.num("oracles", p.oracles).num("warmup", p.warmup).num("helper_cfg", p.helper_cfg);
        if (!p.streams.empty()) {
                w.arr("streams");
                for (auto &s : p.streams) {
                        w.obj();
                        w.key("base");
                        w.first.push_back(true);
                        spec_to_json(w, s.base);
                        w.first.pop_back();
                        w.arr("segs");
                        for (auto x : s.segs)
                                w.anum(x);
                        w.end_arr();
                        w.end_obj();
                }
                w.end_arr();
        }
        w.arr("ops");
        for (auto &o : p.ops) {
                w.out += "\n ";
                w.obj();
                w.str("k", op_names[o.kind]).num("t", o.task);
                if (o.nocheck)
                        w.num("nocheck", 1);
                if (o.a)
                        w.num("a", o.a);
                if (o.b)
                        w.num("b", o.b);
                if (o.pre)
                        w.num("pre", o.pre);
                if (!o.jobs.empty()) {
                        w.arr("jobs");
                        for (auto &j : o.jobs)
                                spec_to_json(w, j);
                        w.end_arr();
                }
                w.end_obj();
        }
        w.out += "\n";
        w.end_arr();
        w.end_obj();
        return w.out;
}

bool
plan_from_json(const std::string &txt, Plan &p, std::string *err)
{
        JP v = json_parse(txt, err);
        if (!v || v->t != JVal::OBJ)
                return false;
        JP pl = v->get("plan");
        if (pl)
                v = pl; // replay files wrap the plan
        p.seed = v->getu("seed");
        p.profile = v->gets("profile");
        p.prop = v->gets("prop");
        p.task_cfg.clear();
        if (JP t = v->get("task_cfg"))
                for (auto &x : t->a)
                        p.task_cfg.push_back((int) x->i);
        p.oracles = (uint32_t) v->geti("oracles");
        p.warmup = (uint32_t) v->geti("warmup");
        p.helper_cfg = (int) v->geti("helper_cfg", -1);
        p.streams.clear();
        if (JP ss = v->get("streams"))
                for (auto &s : ss->a) {
                        SglStream st;
                        if (JP b = s->get("base"))
                                st.base = spec_from_json(*b);
                        if (JP g = s->get("segs"))
                                for (auto &x : g->a)
                                        st.segs.push_back((uint32_t) x->i);
                        p.streams.push_back(st);
                }
        p.ops.clear();
        JP ops = v->get("ops");
        if (!ops)
                return false;
        for (auto &o : ops->a) {
                Op op;
                std::string k = o->gets("k");
                int kind = -1;
                for (int i = 0; i < OP_NKINDS; i++)
                        if (k == op_names[i])
                                kind = i;
                if (kind < 0)
                        continue;
                op.kind = (uint8_t) kind;
                op.task = (uint8_t) o->geti("t");
                op.nocheck = (uint8_t) o->geti("nocheck");
                op.a = (int32_t) o->geti("a");
                op.b = (int32_t) o->geti("b");
                op.pre = (uint32_t) o->geti("pre");
                if (JP js = o->get("jobs"))
                        for (auto &j : js->a)
                                op.jobs.push_back(spec_from_json(*j));
                p.ops.push_back(op);
        }
        return true;
}

// ------------------------------------------------------------------ attribution
const char *
oracle_property(const std::string &o, const JobSpec *s)
{
        auto pre = [&](const char *p) { return o.compare(0, strlen(p), p) == 0; };
        if (pre("fifo."))
                return "C05";
        if (pre("desc.") || pre("errno.") || pre("status."))
                return "C14";
        if (pre("cc."))
                return "C18";
        if (pre("solo."))
                return "C04";
        if (pre("mem.") || pre("guard."))
                return "C07";
        if (pre("ref.")) {
                if (!s)
                        return "C01";
                Suite su;
                su.cipher = s->cipher;
                su.hash = s->hash;
                if (suite_is_aead(su))
                        return "C03";
                if (s->cipher != IMB_CIPHER_NULL && s->hash != IMB_AUTH_NULL)
                        return "C06";
                return s->cipher != IMB_CIPHER_NULL ? "C01" : "C02";
        }
        if (pre("reject."))
                return "C12";
        if (pre("reinit."))
                return "C15";
        if (pre("reattach."))
                return "C16";
        if (pre("indep."))
                return "C17";
        if (pre("variant."))
                return "C08";
        if (pre("entry."))
                return "C09";
        if (pre("sgl."))
                return "C10";
        if (pre("keyprep."))
                return "C11";
        if (pre("residue."))
                return "C13";
        if (pre("suite."))
                return "C06";
        if (pre("selftest."))
                return "C20";
        return "";
}

// ------------------------------------------------------------------ interpreter state
void mat_raw_keys(uint64_t key_seed, uint8_t rawc[64], uint8_t rawa[160]);

namespace {

struct InFlight {
        int id = 0;
        MatJob mj;
        IMB_JOB *slot = nullptr;
        IMB_JOB snap;
        bool expect_invalid = false;
        std::vector<int> errs;
        bool burst = false;
        int op_index = 0;
        int stream = -1;          // SGL stream segment (buffers belong to the stream)
        bool stream_complete = false;
};

struct Task {
        Mgr mgr;
        Mgr solo;
        Mgr xvar[NCFG];
        std::deque<InFlight *> fifo;
        int api = 0; // 0 job API, 1 burst API (may change only when the queue is empty)
        uint64_t hash = 0xabcdef;
        uint64_t hash_user = 0xabcdef; // error code as the user reads it (imb_get_errno) after every op
        bool wrapped = false;
        int last_slot = -1;
        int next_id = 1;
        struct InFlight *held = nullptr; // slot taken with get_next_job and filled, not yet submitted
        IMB_JOB *slots[IMB_MAX_BURST_SIZE + 8];
};

struct StreamState;
const MatJob *stream_mat(const StreamState *st); // ops_ext.inc
struct Ctx {
        std::vector<StreamState *> streams;
        bool use_copies = false;  // managers are created through library copy A (C16 other-image mode)
        bool copyA_dead = false;
        const Plan *plan;
        const RunOpts *opts;
        RunResult *res;
        std::vector<Task> tasks;
        int op_index = -1;
        int next_id = 1;
        bool after_mark = false;
        const JobSpec *cur_spec = nullptr; // for attribution of ref.* oracles
        const InFlight *cur_inf = nullptr;
        struct Task *cur_task = nullptr;
};

Ctx *g_ctx = nullptr;
struct DmCur {
        bool active = false;
        const char *fn = "", *how = "";
        int arg = 0;
        char kind = '?';
} g_dm_cur; // the direct-API misuse call in progress (a fault in it is a C12 violation)
sigjmp_buf g_jmp;
volatile sig_atomic_t g_jmp_armed = 0;
struct FaultInfo {
        void *addr;
        void *rip;
        bool write;
        bool guard;
} g_fault;

void
violate(Ctx &c, const std::string &oracle, const std::string &detail, const std::string &key = "")
{
        Violation v;
        const char *p = oracle_property(oracle, c.cur_spec);
        v.prop = (p && *p) ? p : c.plan->prop;
        v.oracle = oracle;
        v.detail = detail;
        v.op_index = c.op_index;
        v.key = key;
        if (!key.empty() && c.cur_task && c.cur_task->mgr.m)
                v.key = std::string("variant=") + arch_type_name(c.cur_task->mgr.m) + ";" + key;
        if (c.res->viols.size() < 32)
                c.res->viols.push_back(v);
}

void
cc_violation(const char *fn, const char *what)
{
        if (!g_ctx)
                return;
        std::string key = std::string("fn=") + fn + ";what=" + what;
        violate(*g_ctx, "cc.callee_saved", std::string(fn) + ": " + what, key);
}

void
evlog(Ctx &c, Task &t, uint64_t a, uint64_t b, uint64_t d, const char *fmt, ...)
{
        uint64_t h = mix64(mix64(a, b), d);
        t.hash = mix64(t.hash, h);
        c.res->log_hash = mix64(c.res->log_hash, mix64(h, (uint64_t) (&t - &c.tasks[0])));
        if (c.after_mark)
                c.res->suffix_hash = mix64(c.res->suffix_hash, h);
        if (c.opts->want_log) {
                char buf[512];
                va_list ap;
                va_start(ap, fmt);
                vsnprintf(buf, sizeof buf, fmt, ap);
                va_end(ap);
                char pre[64];
                snprintf(pre, sizeof pre, "[%d t%d] ", c.op_index, (int) (&t - &c.tasks[0]));
                c.res->log.push_back(std::string(pre) + buf);
        }
}

inline void ctr(Ctx &c, int k, uint64_t n = 1) { c.res->ctr[k] += n; }

int
slot_index(const Task &t, const IMB_JOB *j)
{
        const IMB_JOB *b = t.mgr.m->jobs;
        if (j < b || j >= b + IMB_MAX_JOBS)
                return -1;
        if (((uintptr_t) j - (uintptr_t) b) % sizeof(IMB_JOB))
                return -1;
        return (int) (j - b);
}

bool
slot_outstanding(const Task &t, const IMB_JOB *j)
{
        for (auto *f : t.fifo)
                if (f->slot == j)
                        return true;
        return false;
}

void
check_errno(Ctx &c, Task &t, const char *call, const std::vector<int> &acceptable)
{
        if (!(c.plan->oracles & OR_DESC))
                return;
        int raw = t.mgr.m->imb_errno;
        bool ok = false;
        for (int e : acceptable)
                if (raw == e)
                        ok = true;
        if (!ok) {
                char b[160];
                std::string exp;
                for (int e : acceptable)
                        exp += std::to_string(e) + " ";
                snprintf(b, sizeof b, "after %s manager error code is %d, expected one of { %s}", call, raw, exp.c_str());
                violate(c, acceptable.size() == 1 && acceptable[0] == 0 ? "errno.stale" : "errno.wrong", b);
        }
}
const std::vector<int> k_ok = { 0 };

void
record_state(Ctx &c, Task &t, const Op &op)
{
        const int opkind = op.kind;
        uint32_t n = (uint32_t) t.fifo.size();
        uint32_t bucket = n == 0 ? 0 : n == 1 ? 1 : n < 16 ? 2 : n < 128 ? 3 : n < 255 ? 4 : 5;
        uint32_t head = 0;
        if (n) {
                int st = t.fifo.front()->slot->status;
                head = st >= IMB_STATUS_COMPLETED ? 1 : st == IMB_STATUS_BEING_PROCESSED ? 2 : 3;
        }
        // which suites are parked (first 3 distinct, order independent)
        uint64_t suites = 0;
        int seen = 0;
        for (auto *f : t.fifo) {
                uint64_t s = ((uint64_t) f->mj.spec.cipher << 8) | f->mj.spec.hash;
                uint64_t hs = mix64(s, 77);
                if (!(suites & (1ull << (hs & 63)))) {
                        suites |= 1ull << (hs & 63);
                        if (++seen >= 6)
                                break;
                }
        }
        uint64_t st = mix64(mix64(bucket * 16 + head * 4 + t.api * 2 + (t.wrapped ? 1 : 0), suites), (uint64_t) opkind);
        if ((opkind == OP_SYNC_BURST || opkind == OP_DIRECT) && !op.jobs.empty()) {
                // entry-point ops: (entry point, suite, buffer-count bucket, nocheck) is what distinguishes cases
                size_t n = op.jobs.size();
                uint64_t nb = n == 1 ? 0 : n < 4 ? 1 : n == 4 ? 2 : n < 8 ? 3 : n == 8 ? 4 : n < 16 ? 5 : n == 16 ? 6 : n < 128 ? 7 : 8;
                st = mix64(st, ((uint64_t) op.a << 32) | ((uint64_t) op.jobs[0].cipher << 24) | ((uint64_t) op.jobs[0].hash << 16) |
                                       ((uint64_t) op.jobs[0].key_len << 8) | (nb << 4) | (uint64_t) op.nocheck * 2 | (op.jobs[0].dir & 1));
        }
        if (opkind == OP_SGL_SEG)
                st = mix64(st, (uint64_t) op.a);
        c.res->states.insert(st);
}

// ------------------------------------------------------------------ fault handler
void
on_fault(int sig, siginfo_t *si, void *uc_)
{
        ucontext_t *uc = (ucontext_t *) uc_;
        g_fault.addr = si->si_addr;
        g_fault.rip = (void *) uc->uc_mcontext.gregs[REG_RIP];
        g_fault.write = (uc->uc_mcontext.gregs[REG_ERR] & 2) != 0;
        g_fault.guard = sig == SIGSEGV && arena::in_guard(si->si_addr);
        if (g_jmp_armed) {
                g_jmp_armed = 0;
                siglongjmp(g_jmp, sig);
        }
        // not inside a simulated run: die loudly
        static const char m[] = "imbsim: fatal signal outside a run\n";
        (void) !write(2, m, sizeof m - 1);
        _exit(3);
}

#include <sys/time.h>
// CPU-time watchdog (ITIMER_PROF counts user+system time of this process, so machine load cannot trip it)
void
watchdog(int cpu_seconds)
{
        struct itimerval it;
        memset(&it, 0, sizeof it);
        it.it_value.tv_sec = cpu_seconds;
        setitimer(ITIMER_PROF, &it, nullptr);
}

void
install_handlers()
{
        static bool done = false;
        if (done)
                return;
        done = true;
        static uint8_t *alt = nullptr;
        const size_t altsz = 1 << 20;
        alt = (uint8_t *) malloc(altsz);
        stack_t ss;
        ss.ss_sp = alt;
        ss.ss_size = altsz;
        ss.ss_flags = 0;
        sigaltstack(&ss, nullptr);
        struct sigaction sa;
        memset(&sa, 0, sizeof sa);
        sa.sa_sigaction = on_fault;
        sa.sa_flags = SA_SIGINFO | SA_ONSTACK | SA_NODEFER;
        sigemptyset(&sa.sa_mask);
        sigaction(SIGSEGV, &sa, nullptr);
        sigaction(SIGBUS, &sa, nullptr);
        sigaction(SIGILL, &sa, nullptr);
        sigaction(SIGFPE, &sa, nullptr);
        sigaction(SIGPROF, &sa, nullptr); // watchdog (CPU time of this process): a library call that never returns
}

// find the caller object nearest to a faulting address
std::string
attribute_fault(Ctx &c, const std::vector<const MatJob *> &extra)
{
        uintptr_t a = (uintptr_t) g_fault.addr;
        const MatJob *best = nullptr;
        int best_obj = -1;
        long best_d = 1 << 30;
        bool after = false;
        const char *seg_kind = nullptr;
        size_t seg_idx = 0;
        uint32_t seg_len = 0;
        auto scan = [&](const MatJob *mj) {
                // segments held in their own objects
                for (int pass = 0; pass < 2; pass++) {
                        const std::vector<arena::Obj> &v = pass ? mj->segs.out : mj->segs.in;
                        for (size_t i = 0; i < v.size(); i++) {
                                if (!v[i].valid())
                                        continue;
                                uintptr_t lo = (uintptr_t) v[i].p, hi = lo + v[i].len;
                                long d;
                                bool aft;
                                if (a >= hi) {
                                        d = (long) (a - hi);
                                        aft = true;
                                } else if (a < lo) {
                                        d = (long) (lo - a);
                                        aft = false;
                                } else
                                        continue;
                                if (d < best_d) {
                                        best_d = d;
                                        best = mj;
                                        best_obj = pass ? O_DST : O_SRC;
                                        after = aft;
                                        seg_kind = pass ? "destination segment" : "source segment";
                                        seg_idx = i;
                                        seg_len = v[i].len;
                                }
                        }
                }
                for (int i = 0; i < O_NOBJ; i++) {
                        const arena::Obj &o = mj->obj[i];
                        if (!o.valid())
                                continue;
                        uintptr_t lo = (uintptr_t) o.p, hi = lo + o.len;
                        long d;
                        bool aft;
                        if (a >= hi) {
                                d = (long) (a - hi);
                                aft = true;
                        } else if (a < lo) {
                                d = (long) (lo - a);
                                aft = false;
                        } else
                                continue;
                        if (d < best_d) {
                                best_d = d;
                                best = mj;
                                best_obj = i;
                                after = aft;
                                seg_kind = nullptr;
                        }
                }
        };
        for (auto &t : c.tasks)
                for (auto *f : t.fifo)
                        scan(&f->mj);
        for (auto *m : extra)
                scan(m);
        for (auto *st : c.streams)
                if (st)
                        scan(stream_mat(st));
        char b[512];
        if (!best || best_d > 4096 + 64) {
                snprintf(b, sizeof b, "%s of guard page at arena+0x%llx (rip %p), no caller object nearby",
                         g_fault.write ? "write" : "read", (unsigned long long) arena::rel(g_fault.addr), g_fault.rip);
                return b;
        }
        const JobSpec &s = best->spec;
        if (seg_kind)
                snprintf(b, sizeof b, "%s %ld byte(s) %s %s %zu (len %u) during %s at rip %p of %s", g_fault.write ? "write" : "read",
                         after ? best_d + 1 : best_d, after ? "past the end of" : "before the start of", seg_kind, seg_idx, seg_len,
                         g_callctx.name, g_fault.rip, spec_str(s).c_str());
        else
                snprintf(b, sizeof b, "%s %ld byte(s) %s object '%s' (len %u) at rip %p of job %s", g_fault.write ? "write" : "read",
                         after ? best_d + 1 : best_d, after ? "past the end of" : "before the start of", obj_names[best_obj],
                         best->obj[best_obj].len, g_fault.rip, spec_str(s).c_str());
        c.cur_spec = &best->spec;
        // structured key for known findings
        std::string key = std::string("alg=") + cipher_name(s.cipher) + "-" + std::to_string(s.key_len * 8) + "/" +
                          hash_name(s.hash) + ";obj=" + obj_names[best_obj] + ";dir=" +
                          (g_fault.write ? "write" : "read") + (after ? "-after-end" : "-before-start");
        return std::string(b) + "\x01" + key;
}

// ------------------------------------------------------------------ hand-back
struct SoloRun {
        MatJob mj;
};
std::vector<const MatJob *> g_aux_live; // materialised jobs outside any FIFO (solo runs), for fault attribution

bool
run_solo_on(Ctx &c, Task &t, Mgr &solo, int cfg, const JobSpec &s, JobOut &out)
{
        if (!solo.m) {
                if (!mgr_create(solo, cfg, t.mgr.img))
                        return false;
        }
        MatJob mj;
        JobSpec s2 = s;
        materialize(mj, s2, solo.m, solo.img);
        g_aux_live.push_back(&mj);
        IMB_JOB *j = L_get_next_job(solo.m);
        *j = mj.tmpl;
        IMB_JOB *r = L_submit_job_nocheck(solo.m);
        int guardn = 0;
        while (!r && guardn++ < 4)
                r = L_flush_job(solo.m);
        bool ok = (r == j);
        mat_collect(mj, r ? (int) r->status : -1, out);
        g_aux_live.pop_back();
        mat_release(mj);
        return ok;
}

const char *
job_field_at(size_t off)
{
#define F(f)                                                                                                           \
        if (off + 1 > offsetof(IMB_JOB, f) && off < offsetof(IMB_JOB, f) + sizeof(((IMB_JOB *) 0)->f))                   \
                return #f;
        F(enc_keys) F(dec_keys) F(key_len_in_bytes) F(src) F(dst) F(cipher_start_src_offset_in_bytes)
        F(msg_len_to_cipher_in_bytes) F(hash_start_src_offset_in_bytes) F(msg_len_to_hash_in_bytes) F(iv)
        F(iv_len_in_bytes) F(auth_tag_output) F(auth_tag_output_len_in_bytes) F(u) F(status) F(cipher_mode)
        F(cipher_direction) F(hash_alg) F(chain_order) F(user_data) F(user_data2) F(cipher_func) F(hash_func)
        F(sgl_state) F(cipher_fields) F(suite_id) F(session_id)
#undef F
        return "padding";
}

void
check_descriptor(Ctx &c, const InFlight &f)
{
        if (!(c.plan->oracles & OR_DESC))
                return;
        const uint8_t *a = (const uint8_t *) &f.snap, *b = (const uint8_t *) f.slot;
        for (size_t i = 0; i < sizeof(IMB_JOB); i++) {
                if (a[i] == b[i])
                        continue;
                const char *fld = job_field_at(i);
                if (!strcmp(fld, "status") || !strcmp(fld, "padding"))
                        continue;
                // lengths are not in the property's protected list (DESIGN C14); everything else is
                if (!strcmp(fld, "msg_len_to_cipher_in_bytes") || !strcmp(fld, "msg_len_to_hash_in_bytes"))
                        continue;
                // documented scratch: "Reserved bytes" of the SNOW-V AEAD field group
                if (f.mj.spec.hash == IMB_AUTH_SNOW_V_AEAD && i >= offsetof(IMB_JOB, u.SNOW_V_AEAD.reserved) &&
                    i < offsetof(IMB_JOB, u.SNOW_V_AEAD.reserved) + sizeof(void *))
                        continue;
                char t[200];
                snprintf(t, sizeof t, "descriptor field '%s' (byte %zu) changed between submit and hand-back of %s", fld, i,
                         spec_str(f.mj.spec).c_str());
                violate(c, "desc.modified", t, std::string("field=") + fld);
                return;
        }
}

void needles_from_job(const MatJob &mj, bool at_submit);
void sgl_stream_done(Ctx &c, Task &t, int stream);
void sgl_oneshot_check(Ctx &c, Task &t, const MatJob &mj, int status);

void
handback(Ctx &c, Task &t, IMB_JOB *r, const char *via)
{
        if (c.plan->oracles & OR_FIFO) {
                if (t.fifo.empty()) {
                        violate(c, "fifo.spurious", std::string(via) + " returned a job while the model queue is empty");
                        return;
                }
        } else if (t.fifo.empty())
                return;
        InFlight *f = t.fifo.front();
        if (r != f->slot) {
                size_t pos = 0;
                InFlight *found = nullptr;
                for (size_t i = 0; i < t.fifo.size(); i++)
                        if (t.fifo[i]->slot == r) {
                                found = t.fifo[i];
                                pos = i;
                                break;
                        }
                char b[200];
                if (found) {
                        snprintf(b, sizeof b, "%s returned job #%d (position %zu in queue) while job #%d is the oldest", via,
                                 found->id, pos, f->id);
                        violate(c, "fifo.order", b);
                        t.fifo.erase(t.fifo.begin() + (long) pos);
                        f = found;
                } else {
                        snprintf(b, sizeof b, "%s returned pointer (ring index %d) that is not a job in flight", via,
                                 slot_index(t, r));
                        violate(c, "fifo.unknown", b);
                        return;
                }
        } else
                t.fifo.pop_front();

        c.cur_spec = &f->mj.spec;
        c.cur_inf = f;
        const int st = (int) r->status;
        const bool completed = st == IMB_STATUS_COMPLETED;
        if (f->expect_invalid) {
                ctr(c, CT_JOBS_INVALID);
                if (f->mj.spec.cipher == IMB_CIPHER_GCM_SGL || f->mj.spec.cipher == IMB_CIPHER_CHACHA20_POLY1305_SGL)
                        ctr(c, CT_SGL_INVALID);
                if (st != IMB_STATUS_INVALID_ARGS) {
                        char b[300];
                        snprintf(b, sizeof b, "job violating '%s' handed back with status %d instead of INVALID_ARGS: %s",
                                 viol_name(f->mj.spec.viol), st, spec_str(f->mj.spec).c_str());
                        violate(c, "reject.accepted", b, std::string("viol=") + viol_name(f->mj.spec.viol));
                }
        } else {
                ctr(c, CT_JOBS_COMPLETED);
                if (st == IMB_STATUS_INVALID_ARGS) {
                        char b[300];
                        snprintf(b, sizeof b, "valid job rejected (errno %d): %s", t.mgr.m->imb_errno,
                                 spec_str(f->mj.spec).c_str());
                        violate(c, "reject.valid_rejected", b);
                } else if (!completed) {
                        char b[300];
                        snprintf(b, sizeof b, "job handed back with partial status %d: %s", st, spec_str(f->mj.spec).c_str());
                        violate(c, "status.partial", b);
                }
        }
        check_descriptor(c, *f);
        if (f->stream >= 0) {
                // SGL segment: buffers belong to the stream; the stream is judged at its COMPLETE segment
                if (completed && f->stream_complete)
                        sgl_stream_done(c, t, f->stream);
                evlog(c, t, 0x4842, (uint64_t) f->id * 8 + (uint64_t) st, 0, "  handback via %s: sgl segment job #%d slot %d status %d", via,
                      f->id, slot_index(t, r), st);
                c.cur_spec = nullptr;
                c.cur_inf = nullptr;
                delete f;
                return;
        }

        if (c.plan->oracles & (OR_MEM | OR_REJECT)) {
                if ((c.plan->oracles & OR_MEM) || !completed) {
                        ctr(c, CT_MEM_CHECKS);
                        std::string m = mat_check_memory(f->mj, completed);
                        if (!m.empty())
                                violate(c, completed ? "mem.outside" : "reject.touched", m + " | " + spec_str(f->mj.spec));
                }
        }

        JobOut out;
        mat_collect(f->mj, st, out);
        if ((c.plan->oracles & OR_SCRUB) && completed)
                needles_from_job(f->mj, false);
        if (c.opts->want_suites && completed)
                c.res->suites[suite_str({ f->mj.spec.cipher, f->mj.spec.dir, f->mj.spec.hash, f->mj.spec.order,
                                          f->mj.spec.key_len })]++;

        if (completed && (c.plan->oracles & OR_SOLO)) {
                JobOut so;
                ctr(c, CT_SOLO_RUNS);
                bool ok = run_solo_on(c, t, t.solo, t.mgr.cfg, f->mj.spec, so);
                if (!ok)
                        violate(c, "solo.noreturn", "solo run did not hand the job back: " + spec_str(f->mj.spec));
                else if (!(so == out))
                        violate(c, "solo.differs",
                                "scheduled result differs from the same job run alone: " + out_diff(out, so) + " | " +
                                        spec_str(f->mj.spec),
                                std::string("alg=") + cipher_name(f->mj.spec.cipher) + "/" + hash_name(f->mj.spec.hash));
        }
        if (completed && (c.plan->oracles & OR_SOLO) && f->mj.spec.sgl_state == IMB_SGL_ALL &&
            (f->mj.spec.cipher == IMB_CIPHER_GCM_SGL || f->mj.spec.cipher == IMB_CIPHER_CHACHA20_POLY1305_SGL))
                sgl_oneshot_check(c, t, f->mj, st);
        if (completed && (c.plan->oracles & OR_XVAR)) {
                // same job alone on every other variant
                for (int k = 0; k < 7; k++) {
                        int cfg = k_variant_cfgs[k];
                        if (cfg == t.mgr.cfg)
                                continue;
                        JobOut xo;
                        ctr(c, CT_XVAR_RUNS);
                        bool ok = run_solo_on(c, t, t.xvar[cfg], cfg, f->mj.spec, xo);
                        if (!ok || !(xo == out)) {
                                violate(c, "variant.differs",
                                        std::string("result on ") + cfg_name(t.mgr.cfg) + " differs from " + cfg_name(cfg) +
                                                ": " + out_diff(out, xo) + " | " + spec_str(f->mj.spec),
                                        std::string("alg=") + cipher_name(f->mj.spec.cipher) + "/" +
                                                hash_name(f->mj.spec.hash));
                                break;
                        }
                }
        }
        if (completed && (c.plan->oracles & OR_REF)) {
                RefOut ro;
                if (ref_compute(f->mj.spec, f->mj, ro)) {
                        ctr(c, CT_REF_CHECKS);
                        std::string d;
                        char b[200];
                        auto cmp = [&](const char *n, const std::vector<uint8_t> &got, const std::vector<uint8_t> &exp,
                                       bool masked) {
                                if (!d.empty() || exp.empty())
                                        return;
                                if (got.size() != exp.size()) {
                                        snprintf(b, sizeof b, "%s size %zu vs reference %zu", n, got.size(), exp.size());
                                        d = b;
                                        return;
                                }
                                for (size_t i = 0; i < got.size(); i++) {
                                        uint8_t m = 0xFF;
                                        if (masked && i + 1 == got.size())
                                                m &= ro.dst_mask_last;
                                        if (masked && i < ro.dst_mask.size())
                                                m &= ro.dst_mask[i];
                                        if ((got[i] ^ exp[i]) & m) {
                                                snprintf(b, sizeof b, "%s byte %zu of %zu: library %02x, reference %02x", n, i,
                                                         got.size(), got[i], exp[i]);
                                                d = b;
                                                return;
                                        }
                                }
                        };
                        cmp("dst", out.dst, ro.dst, true);
                        cmp("tag", out.tag, ro.tag, false);
                        cmp("src_post", out.src_post, ro.src_post, false);
                        cmp("next_iv", out.niv, ro.niv, false);
                        if (!d.empty())
                                violate(c, "ref.mismatch", d + " | " + spec_str(f->mj.spec),
                                        std::string("alg=") + cipher_name(f->mj.spec.cipher) + "/" +
                                                hash_name(f->mj.spec.hash));
                } else
                        ctr(c, CT_REF_SKIPPED);
        }

        evlog(c, t, 0x4842, (uint64_t) f->id * 8 + (uint64_t) st, out.hash(), "  handback via %s: job #%d slot %d status %d out %016llx",
              via, f->id, slot_index(t, r), st, (unsigned long long) out.hash());
        c.cur_spec = nullptr;
        c.cur_inf = nullptr;
        mat_release(f->mj);
        delete f;
}

void
drop_all(Ctx &c, Task &t)
{
        (void) c;
        if (t.held) {
                mat_release(t.held->mj);
                delete t.held;
                t.held = nullptr;
        }
        for (auto *f : t.fifo) {
                mat_release(f->mj);
                delete f;
        }
        t.fifo.clear();
}

InFlight *
prepare_job(Ctx &c, Task &t, const JobSpec &spec, IMB_JOB *slot, bool burst)
{
        InFlight *f = new InFlight;
        f->id = t.next_id++;
        f->slot = slot;
        f->burst = burst;
        f->op_index = c.op_index;
        IMB_MGR *helper = t.mgr.m;
        materialize(f->mj, spec, helper, t.mgr.img);
        *slot = f->mj.tmpl;
        slot->user_data = (void *) (uintptr_t) (0x1000 + f->id);
        slot->user_data2 = (void *) (uintptr_t) 0x5EED5EED5EEDull;
        if (burst)
                tc("imb_set_session", t.mgr.img->imb_set_session, t.mgr.m, slot);
        if (spec.viol) {
                f->expect_invalid = true;
                viol_apply(spec.viol, spec, slot, f->errs);
                if (spec.viol2) {
                        std::vector<int> e2;
                        viol_apply(spec.viol2, spec, slot, e2);
                        f->errs.insert(f->errs.end(), e2.begin(), e2.end());
                }
        }
        f->snap = *slot;
        if ((c.plan->oracles & OR_SCRUB) && !spec.viol)
                needles_from_job(f->mj, true);
        // coverage counters
        for (int i = 0; i < O_NOBJ; i++)
                if (f->mj.obj[i].valid()) {
                        if (spec.place[i] == arena::PLACE_END)
                                ctr(c, CT_GUARD_PLACED_END);
                        else if (spec.place[i] == arena::PLACE_START)
                                ctr(c, CT_GUARD_PLACED_START);
                }
        if (spec.cipher != IMB_CIPHER_NULL && spec.hash != IMB_AUTH_NULL)
                ctr(c, CT_CHAINED_JOBS);
        if (!spec.inplace)
                ctr(c, CT_OOP_JOBS);
        if (spec.iv_kind)
                ctr(c, CT_SPECIAL_IV);
        return f;
}

void
note_ring(Ctx &c, Task &t, int idx)
{
        if (t.last_slot >= 0 && idx < t.last_slot) {
                t.wrapped = true;
                ctr(c, CT_RING_WRAP);
        }
        t.last_slot = idx;
}

// ------------------------------------------------------------------ ops
void
op_submit(Ctx &c, Task &t, const Op &op)
{
        if ((op.jobs.empty() && !t.held) || (t.api == 1 && !t.fifo.empty())) {
                ctr(c, CT_DEGRADED_OPS);
                return;
        }
        t.api = 0;
        IMB_MGR *m = t.mgr.m;
        InFlight *f = nullptr;
        int idx;
        if (t.held) {
                // the slot was taken and filled by an earlier GET_NEXT op; other calls may have happened in between
                f = t.held;
                t.held = nullptr;
                idx = slot_index(t, f->slot);
        } else {
                IMB_JOB *slot = L_get_next_job(m);
                check_errno(c, t, "get_next_job", k_ok);
                idx = slot_index(t, slot);
                if (c.plan->oracles & OR_FIFO) {
                        if (idx < 0) {
                                violate(c, "fifo.badslot", "get_next_job returned a pointer outside the manager's ring");
                                return;
                        }
                        if (slot_outstanding(t, slot)) {
                                violate(c, "fifo.slot_reused", "get_next_job offered a slot that is still awaiting return");
                                return;
                        }
                }
                note_ring(c, t, idx);
                f = prepare_job(c, t, op.jobs[0], slot, false);
        }
        const JobSpec &spec = f->mj.spec;
        bool nocheck = op.nocheck && !spec.viol;
        ctr(c, CT_JOBS_SUBMITTED);
        t.fifo.push_back(f);
        if (t.fifo.size() > c.res->ctr[CT_MAX_INFLIGHT])
                c.res->ctr[CT_MAX_INFLIGHT] = t.fifo.size();
        evlog(c, t, 0x5355, (uint64_t) idx, (uint64_t) f->id, "submit%s job #%d slot %d: %s", nocheck ? "_nocheck" : "", f->id, idx,
              c.opts->want_log ? spec_str(spec).c_str() : "");
        IMB_JOB *r = nocheck ? L_submit_job_nocheck(m) : L_submit_job(m);
        if (f->expect_invalid && !nocheck)
                check_errno(c, t, "submit_job(invalid)", f->errs);
        else
                check_errno(c, t, "submit_job", k_ok);
        if (r) {
                ctr(c, CT_SUBMIT_RET_JOB);
                if (t.fifo.size() == IMB_MAX_JOBS)
                        ctr(c, CT_QUEUE_FULL_FORCED);
                handback(c, t, r, "submit_job");
        } else {
                ctr(c, CT_SUBMIT_RET_NULL);
                if ((c.plan->oracles & OR_FIFO) && t.fifo.size() >= IMB_MAX_JOBS)
                        violate(c, "fifo.full", "submit on a full queue returned NULL instead of completing the oldest job");
        }
}

void
op_get_completed(Ctx &c, Task &t)
{
        if (t.api == 1 && !t.fifo.empty()) {
                ctr(c, CT_DEGRADED_OPS);
                return;
        }
        IMB_JOB *r = L_get_completed_job(t.mgr.m);
        check_errno(c, t, "get_completed_job", k_ok);
        evlog(c, t, 0x4743, r ? 1 : 0, 0, "get_completed_job -> %s", r ? "job" : "NULL");
        if (r) {
                ctr(c, CT_GETC_JOB);
                handback(c, t, r, "get_completed_job");
        } else if (!t.fifo.empty())
                ctr(c, CT_GETC_NULL_NONEMPTY);
}

void
op_flush(Ctx &c, Task &t)
{
        if (t.api == 1 && !t.fifo.empty()) {
                ctr(c, CT_DEGRADED_OPS);
                return;
        }
        IMB_JOB *r = L_flush_job(t.mgr.m);
        check_errno(c, t, "flush_job", k_ok);
        evlog(c, t, 0x464c, r ? 1 : 0, 0, "flush_job -> %s", r ? "job" : "NULL");
        if (r) {
                ctr(c, CT_FLUSH_NONEMPTY);
                handback(c, t, r, "flush_job");
        } else {
                ctr(c, CT_FLUSH_EMPTY);
                if ((c.plan->oracles & OR_FIFO) && !t.fifo.empty()) {
                        char b[128];
                        snprintf(b, sizeof b, "flush_job returned NULL with %zu jobs in flight", t.fifo.size());
                        violate(c, "fifo.flush_null", b);
                }
        }
}

void op_flush_burst(Ctx &c, Task &t, uint32_t max);

void
op_flush_all(Ctx &c, Task &t)
{
        // bounded liveness: at most FIFO-length flush calls drain the queue
        size_t budget = t.fifo.size() + 2;
        while (!t.fifo.empty() && budget--) {
                if (t.api == 1)
                        op_flush_burst(c, t, IMB_MAX_BURST_SIZE);
                else
                        op_flush(c, t);
                if (!c.res->viols.empty() && c.res->viols.size() > 8)
                        break;
        }
        if ((c.plan->oracles & OR_FIFO) && !t.fifo.empty())
                violate(c, "fifo.not_drained", "flushing did not drain the queue within its length in calls");
        if (!t.fifo.empty())
                drop_all(c, t);
}

void
op_queue_size(Ctx &c, Task &t)
{
        uint32_t n = L_queue_size(t.mgr.m);
        check_errno(c, t, "queue_size", k_ok);
        evlog(c, t, 0x5153, n, 0, "queue_size -> %u", n);
        if ((c.plan->oracles & OR_FIFO) && n != t.fifo.size()) {
                char b[128];
                snprintf(b, sizeof b, "queue_size reports %u, model has %zu jobs in flight", n, t.fifo.size());
                violate(c, "fifo.queue_size", b);
        }
}

void
op_get_next(Ctx &c, Task &t, const Op &op)
{
        if ((t.api == 1 && !t.fifo.empty()) || t.held) {
                ctr(c, CT_DEGRADED_OPS);
                return;
        }
        IMB_JOB *s1 = L_get_next_job(t.mgr.m);
        check_errno(c, t, "get_next_job", k_ok);
        IMB_JOB *s2 = L_get_next_job(t.mgr.m);
        const bool hold = !op.jobs.empty();
        evlog(c, t, 0x474e, (uint64_t) slot_index(t, s1), hold, "get_next_job (%s) slot %d", hold ? "filled, submit comes later" : "abandoned",
              slot_index(t, s1));
        if (c.plan->oracles & OR_FIFO) {
                if (s1 != s2)
                        violate(c, "fifo.next_unstable", "two get_next_job calls without submit returned different slots");
                if (slot_index(t, s1) < 0) {
                        violate(c, "fifo.badslot", "get_next_job returned a pointer outside the manager's ring");
                        return;
                }
                if (slot_outstanding(t, s1))
                        violate(c, "fifo.slot_reused", "get_next_job offered a slot that is still awaiting return");
        }
        if (hold) {
                t.api = 0;
                note_ring(c, t, slot_index(t, s1));
                t.held = prepare_job(c, t, op.jobs[0], s1, false);
        }
}

void
op_burst(Ctx &c, Task &t, const Op &op)
{
        uint32_t n = (uint32_t) op.jobs.size();
        if (n > IMB_MAX_BURST_SIZE)
                n = IMB_MAX_BURST_SIZE;
        if ((t.api == 0 && !t.fifo.empty()) || t.held) {
                ctr(c, CT_DEGRADED_OPS);
                return;
        }
        t.api = 1;
        IMB_MGR *m = t.mgr.m;
        ctr(c, CT_BURST);
        for (uint32_t i = 0; i < n + 4; i++)
                t.slots[i] = (IMB_JOB *) (uintptr_t) 0xDEAD0000;
        uint32_t k = L_get_next_burst(m, n, t.slots);
        check_errno(c, t, "get_next_burst", k_ok);
        uint32_t room = IMB_MAX_JOBS - (uint32_t) t.fifo.size();
        uint32_t expect = n < room ? n : room;
        evlog(c, t, 0x4e42, n, k, "get_next_burst(%u) -> %u", n, k);
        if (c.plan->oracles & OR_FIFO) {
                if (k != expect) {
                        char b[160];
                        snprintf(b, sizeof b, "get_next_burst(%u) returned %u slots with %zu jobs in flight (expected %u)", n, k,
                                 t.fifo.size(), expect);
                        violate(c, "fifo.burst_slots", b);
                }
                for (uint32_t i = 0; i < k && i < n; i++) {
                        int idx = slot_index(t, t.slots[i]);
                        if (idx < 0) {
                                violate(c, "fifo.badslot", "get_next_burst returned a pointer outside the ring");
                                return;
                        }
                        if (slot_outstanding(t, t.slots[i])) {
                                violate(c, "fifo.slot_reused", "get_next_burst offered a slot that is still awaiting return");
                                return;
                        }
                        if (i > 0) {
                                int prev = slot_index(t, t.slots[i - 1]);
                                if (idx != (prev + 1) % IMB_MAX_JOBS) {
                                        violate(c, "fifo.burst_order", "get_next_burst slots are not consecutive ring entries");
                                        return;
                                }
                        }
                }
        }
        if (k > n)
                k = n;
        if (k < n)
                ctr(c, CT_BURST_PARTIAL_SLOTS);
        if (k == 0)
                return;
        if (slot_index(t, t.slots[k - 1]) < slot_index(t, t.slots[0]))
                ctr(c, CT_BURST_STRADDLE);
        bool any_invalid = false;
        for (uint32_t i = 0; i < k; i++)
                if (op.jobs[i].viol)
                        any_invalid = true;
        bool nocheck = op.nocheck && !any_invalid;
        std::vector<InFlight *> fs;
        for (uint32_t i = 0; i < k; i++) {
                note_ring(c, t, slot_index(t, t.slots[i]));
                fs.push_back(prepare_job(c, t, op.jobs[i], t.slots[i], true));
        }
        IMB_JOB *first_slots[IMB_MAX_BURST_SIZE];
        for (uint32_t i = 0; i < k; i++)
                first_slots[i] = t.slots[i];
        if (any_invalid) {
                // checked burst with an offender: everything is rejected, nothing is submitted
                InFlight *off = nullptr;
                for (auto *f : fs)
                        if (f->expect_invalid) {
                                off = f;
                                break;
                        }
                uint32_t rc = L_submit_burst(m, k, t.slots);
                ctr(c, CT_BURST_REJECTED);
                evlog(c, t, 0x4252, k, rc, "submit_burst(%u) with invalid job -> %u errno %d", k, rc, m->imb_errno);
                check_errno(c, t, "submit_burst(invalid)", off->errs);
                if (c.plan->oracles & (OR_REJECT | OR_FIFO)) {
                        if (rc != 0)
                                violate(c, "reject.burst_accepted", "submit_burst with an invalid job returned non-zero");
                        else {
                                if (t.slots[0] != off->slot)
                                        violate(c, "reject.burst_offender", "jobs[0] does not point at the offending job");
                                else if (off->slot->status != IMB_STATUS_INVALID_ARGS)
                                        violate(c, "reject.burst_status", "offending job not marked INVALID_ARGS");
                        }
                        uint32_t qs = L_queue_size(m);
                        if (qs != t.fifo.size())
                                violate(c, "reject.burst_submitted", "a rejected burst changed the queue size");
                }
                for (auto *f : fs) {
                        c.cur_spec = &f->mj.spec;
                        std::string mm = mat_check_memory(f->mj, false);
                        if (!mm.empty() && (c.plan->oracles & OR_REJECT))
                                violate(c, "reject.touched", mm + " | rejected burst | " + spec_str(f->mj.spec));
                        c.cur_spec = nullptr;
                        ctr(c, CT_JOBS_INVALID);
                        mat_release(f->mj);
                        delete f;
                }
                return;
        }
        for (auto *f : fs) {
                t.fifo.push_back(f);
                ctr(c, CT_JOBS_SUBMITTED);
        }
        if (t.fifo.size() > c.res->ctr[CT_MAX_INFLIGHT])
                c.res->ctr[CT_MAX_INFLIGHT] = t.fifo.size();
        uint32_t rc = nocheck ? L_submit_burst_nocheck(m, k, t.slots) : L_submit_burst(m, k, t.slots);
        evlog(c, t, 0x5342, k, rc, "submit_burst%s(%u) -> %u", nocheck ? "_nocheck" : "", k, rc);
        check_errno(c, t, "submit_burst", k_ok);
        if ((c.plan->oracles & OR_FIFO) && rc > k && rc > t.fifo.size())
                violate(c, "fifo.burst_count", "submit_burst returned more jobs than are in flight");
        for (uint32_t i = 0; i < rc && !t.fifo.empty(); i++)
                handback(c, t, t.slots[i], "submit_burst");
        (void) first_slots;
}

void
op_flush_burst(Ctx &c, Task &t, uint32_t max)
{
        if (t.api == 0 && !t.fifo.empty()) {
                ctr(c, CT_DEGRADED_OPS);
                return;
        }
        if (max > IMB_MAX_BURST_SIZE)
                max = IMB_MAX_BURST_SIZE;
        ctr(c, CT_FLUSH_BURST);
        uint32_t rc = L_flush_burst(t.mgr.m, max, t.slots);
        check_errno(c, t, "flush_burst", k_ok);
        uint32_t expect = max < t.fifo.size() ? max : (uint32_t) t.fifo.size();
        evlog(c, t, 0x4642, max, rc, "flush_burst(%u) -> %u", max, rc);
        if ((c.plan->oracles & OR_FIFO) && rc != expect) {
                char b[160];
                snprintf(b, sizeof b, "flush_burst(%u) returned %u with %zu jobs in flight (expected %u)", max, rc, t.fifo.size(),
                         expect);
                violate(c, "fifo.flush_burst_count", b);
        }
        if (rc)
                ctr(c, CT_FLUSH_NONEMPTY);
        for (uint32_t i = 0; i < rc && !t.fifo.empty(); i++)
                handback(c, t, t.slots[i], "flush_burst");
}

void
op_reinit(Ctx &c, Task &t, int cfg)
{
        if (cfg < 0 || cfg >= NCFG)
                cfg = t.mgr.cfg;
        ctr(c, t.fifo.empty() ? CT_REINIT_IDLE : CT_REINIT_INFLIGHT);
        size_t dropped = t.fifo.size();
        drop_all(c, t);
        if (cfg_flags(cfg) != t.mgr.m->flags)
                tc("imb_set_pointers_mb_mgr", t.mgr.img->imb_set_pointers_mb_mgr, t.mgr.mem.p, cfg_flags(cfg), 0u);
        mgr_init(t.mgr, cfg);
        t.api = 0;
        t.last_slot = -1;
        t.wrapped = false;
        t.next_id = 1;
        // history after the last re-initialisation is hashed separately (C15: must equal a fresh manager's)
        c.after_mark = true;
        c.res->suffix_hash = 0;
        {
                bool am = c.after_mark;
                c.after_mark = false; // the re-init event itself is not part of the suffix
                evlog(c, t, 0x5249, (uint64_t) cfg, dropped, "re-init as %s with %zu jobs in flight -> %s errno %d", cfg_name(cfg),
                      dropped, arch_type_name(t.mgr.m), t.mgr.m->imb_errno);
                c.after_mark = am;
        }
        // immediate post-conditions (C15)
        if (t.mgr.m->imb_errno != 0)
                violate(c, "reinit.errno", "re-initialisation left a non-zero error code");
        if (!(t.mgr.m->features & IMB_FEATURE_SELF_TEST_PASS))
                violate(c, "reinit.selftest", "self-test pass bit not set after re-initialisation");
        uint32_t qs = L_queue_size(t.mgr.m);
        if (qs != 0)
                violate(c, "reinit.queue_size", "queue size is not zero after re-initialisation");
        if (L_get_completed_job(t.mgr.m) != nullptr)
                violate(c, "reinit.get_completed", "get_completed_job returned a job after re-initialisation");
        if (L_flush_job(t.mgr.m) != nullptr)
                violate(c, "reinit.flush", "flush_job returned a job after re-initialisation");
        // release the solo/xvar managers? they are independent; keep.
}

void
op_reattach(Ctx &c, Task &t, int mode)
{
        ctr(c, t.fifo.empty() ? CT_REATTACH_IDLE : CT_REATTACH_INFLIGHT);
        const LibImage *old_img = t.mgr.img;
        const LibImage *new_img = old_img;
        if (mode == 1 && c.use_copies && old_img == image_copy(0) && !c.copyA_dead) {
                // the "crashed process": every mapping of the library copy that created this state becomes
                // inaccessible (text, tables, globals); the re-attaching side is a different copy at other addresses
                if (t.solo.m)
                        mgr_destroy(t.solo);
                for (auto &x : t.xvar)
                        if (x.m)
                                mgr_destroy(x);
                if (image_protect(image_copy(0), true)) {
                        c.copyA_dead = true;
                        new_img = image_copy(1);
                        ctr(c, CT_REATTACH_OTHER_IMAGE);
                }
        }
        IMB_MGR *m2 = (IMB_MGR *) tc("imb_set_pointers_mb_mgr", new_img->imb_set_pointers_mb_mgr, t.mgr.mem.p, cfg_flags(t.mgr.cfg), 0u);
        t.mgr.img = new_img;
        evlog(c, t, 0x5241, t.fifo.size(), (uint64_t) (new_img != old_img), "re-attach (no reset%s) with %zu jobs in flight",
              new_img != old_img ? ", through a different library image; the old image is inaccessible" : "", t.fifo.size());
        if (m2 != t.mgr.m)
                violate(c, "reattach.pointer", "imb_set_pointers_mb_mgr returned a different manager pointer");
        uint32_t qs = L_queue_size(t.mgr.m);
        if (qs != t.fifo.size()) {
                char b[128];
                snprintf(b, sizeof b, "after re-attach queue_size is %u, %zu jobs were in flight", qs, t.fifo.size());
                violate(c, "reattach.queue_size", b);
        }
}

void
op_misuse(Ctx &c, Task &t, int kind)
{
        IMB_MGR *m = t.mgr.m;
        ctr(c, CT_MISUSE);
        const size_t before = t.fifo.size();
        uint32_t rc = 0;
        std::vector<int> exp;
        const char *what = "";
        if (t.api == 0 && !t.fifo.empty() && kind >= 2 && kind != 8) {
                ctr(c, CT_DEGRADED_OPS);
                return;
        }
        switch (kind) {
        case 0:
                what = "get_next_burst(n>128)";
                rc = L_get_next_burst(m, IMB_MAX_BURST_SIZE + 1 + (uint32_t) (c.op_index % 7), t.slots);
                exp = { IMB_ERR_BURST_SIZE };
                break;
        case 1:
                what = "get_next_burst(NULL)";
                rc = L_get_next_burst(m, 4, nullptr);
                exp = { IMB_ERR_NULL_BURST };
                break;
        case 2:
                what = "submit_burst(n>128)";
                rc = L_submit_burst(m, IMB_MAX_BURST_SIZE + 1, t.slots);
                exp = { IMB_ERR_BURST_SIZE };
                break;
        case 3:
                what = "submit_burst(NULL)";
                rc = L_submit_burst(m, 2, nullptr);
                exp = { IMB_ERR_NULL_BURST };
                break;
        case 4: {
                what = "submit_burst(more than free space)";
                uint32_t room = IMB_MAX_JOBS - (uint32_t) t.fifo.size();
                if (room >= IMB_MAX_BURST_SIZE) {
                        ctr(c, CT_DEGRADED_OPS);
                        return;
                }
                uint32_t k = L_get_next_burst(m, room, t.slots);
                for (uint32_t i = k; i <= room; i++)
                        t.slots[i] = t.slots[0];
                rc = L_submit_burst(m, room + 1, t.slots);
                exp = { IMB_ERR_QUEUE_SPACE };
                break;
        }
        case 5: {
                what = "submit_burst(NULL job entry)";
                uint32_t k = L_get_next_burst(m, 3, t.slots);
                if (k < 3) {
                        ctr(c, CT_DEGRADED_OPS);
                        return;
                }
                t.slots[1] = nullptr;
                // first entry must be a valid job or the call stops there; make it NULL too
                t.slots[0] = nullptr;
                rc = L_submit_burst(m, 3, t.slots);
                exp = { IMB_ERR_NULL_JOB };
                break;
        }
        case 6:
                what = "flush_burst(NULL)";
                rc = L_flush_burst(m, 4, nullptr);
                exp = { IMB_ERR_NULL_BURST };
                break;
        default: ctr(c, CT_DEGRADED_OPS); return;
        }
        evlog(c, t, 0x4d55, (uint64_t) kind, rc, "misuse %s -> %u errno %d", what, rc, m->imb_errno);
        if (c.plan->oracles & (OR_REJECT | OR_DESC)) {
                if (rc != 0)
                        violate(c, "reject.misuse_accepted", std::string(what) + " returned non-zero");
                bool ok = false;
                for (int e : exp)
                        if (m->imb_errno == e)
                                ok = true;
                if (!ok) {
                        char b[128];
                        snprintf(b, sizeof b, "%s: error code %d, expected %d", what, m->imb_errno, exp[0]);
                        violate(c, "reject.misuse_errno", b);
                }
        }
        uint32_t qs = L_queue_size(m);
        if ((c.plan->oracles & OR_FIFO) && (qs != before || t.fifo.size() != before))
                violate(c, "fifo.misuse_changed_queue", std::string(what) + " changed the queue");
}

#include "ops_scrub.inc"
#include "ops_ext.inc"
#include "ops_keyprep.inc"
#include "ops_dmisuse.inc"

void
sgl_stream_done(Ctx &c, Task &t, int stream)
{
        if ((size_t) stream >= c.streams.size() || !c.streams[(size_t) stream])
                return;
        sgl_final_check(c, t, *c.streams[(size_t) stream]);
}

void op_direct_misuse(Ctx &c, Task &t, const Op &op);

void
exec_op(Ctx &c, size_t k)
{
        const Plan &p = *c.plan;
        const Op &op = p.ops[k];
        c.op_index = (int) k;
        Task &t = c.tasks[op.task];
        c.cur_task = &t;
        ctr(c, CT_OPS);
        record_state(c, t, op);
        switch (op.kind) {
        case OP_SUBMIT: op_submit(c, t, op); break;
        case OP_GET_COMPLETED: op_get_completed(c, t); break;
        case OP_FLUSH: op_flush(c, t); break;
        case OP_FLUSH_ALL: op_flush_all(c, t); break;
        case OP_QUEUE_SIZE: op_queue_size(c, t); break;
        case OP_GET_NEXT: op_get_next(c, t, op); break;
        case OP_BURST: op_burst(c, t, op); break;
        case OP_FLUSH_BURST: op_flush_burst(c, t, (uint32_t) op.a); break;
        case OP_REINIT: op_reinit(c, t, op.a); break;
        case OP_REATTACH: op_reattach(c, t, op.a); break;
        case OP_MISUSE:
                if (op.a >= 100)
                        op_direct_misuse(c, t, op);
                else
                        op_misuse(c, t, op.a);
                break;
        case OP_MARK: c.after_mark = true; break;
        case OP_SYNC_BURST: op_sync_burst(c, t, op); break;
        case OP_DIRECT: op_direct(c, t, op); break;
        case OP_SGL_SEG: op_sgl_seg(c, t, op); break;
        case OP_KEYPREP: op_keyprep(c, t, op); break;
        default: ctr(c, CT_DEGRADED_OPS); break;
        }
        if ((p.oracles & OR_SCRUB) && t.fifo.empty() && op.kind != OP_KEYPREP && op.kind != OP_QUEUE_SIZE && op.kind != OP_GET_NEXT &&
            op.kind != OP_MISUSE && op.kind != OP_MARK)
                residue_scan(c, t, g_callctx.name, true, false);
        if (p.prop == "C17" && t.mgr.m) {
                // what the user reads: the manager's own code, or - when that is 0 - the process-wide mirror
                const int e = mgr_errno(t.mgr);
                t.hash_user = mix64(t.hash_user, ((uint64_t) k << 20) ^ (uint64_t) (uint32_t) e);
        }
}

struct NestArg {
        Ctx *c;
        size_t k;
};

// runs in the single-step handler: another task's op while the current task's call is suspended
void
nested_op(void *arg)
{
        NestArg *na = (NestArg *) arg;
        Ctx &c = *na->c;
        const int op_index = c.op_index;
        Task *cur_task = c.cur_task;
        const JobSpec *cur_spec = c.cur_spec;
        const InFlight *cur_inf = c.cur_inf;
        exec_op(c, na->k);
        c.op_index = op_index;
        c.cur_task = cur_task;
        c.cur_spec = cur_spec;
        c.cur_inf = cur_inf;
}

} // namespace

int
direct_misuse_count()
{
        return k_ndm;
}

RunResult
run_plan(const Plan &p, const RunOpts &o)
{
        install_handlers();
        preempt_install();
        g_pre.armed = g_pre.stepping = g_pre.fired = 0;
        g_dm_cur.active = false;
        arena::init();
        arena::reset();
        RunResult res;
        Ctx c;
        c.plan = &p;
        c.opts = &o;
        c.res = &res;
        c.tasks.resize(p.task_cfg.size());
        res.task_hash.resize(p.task_cfg.size());
        res.task_hash_user.resize(p.task_cfg.size());
        g_ctx = &c;
        g_cc_violation = cc_violation;
        g_callctx.scrub = (p.oracles & OR_SCRUB) != 0;
        g_needles.clear();
        g_aux_live.clear();
        uint64_t calls0 = g_calls_total;

        for (auto &op : p.ops)
                if (op.kind == OP_REATTACH && op.a == 1 && image_copy(0) && image_copy(1))
                        c.use_copies = true;
        int sig = sigsetjmp(g_jmp, 1);
        if (sig == 0) {
                g_jmp_armed = 1;
                watchdog(60); // CPU seconds: the slowest legitimate runs (64 KiB 3DES jobs with SAFE_LOOKUP) need about ten
                for (size_t i = 0; i < c.tasks.size(); i++) {
                        if (o.only_task >= 0 && (int) i != o.only_task)
                                continue;
                        if (!mgr_create(c.tasks[i].mgr, p.task_cfg[i], c.use_copies ? image_copy(0) : &g_img)) {
                                violate(c, "init.failed", std::string("initialisation failed for ") + cfg_name(p.task_cfg[i]));
                                goto done;
                        }
                }
                // warm-up: move the ring position with immediate jobs (NULL cipher + plain CRC: completes in submit)
                for (size_t i = 0; i < c.tasks.size(); i++) {
                        if (o.only_task >= 0 && (int) i != o.only_task)
                                continue;
                        Task &t = c.tasks[i];
                        for (uint32_t w = 0; w < p.warmup; w++) {
                                IMB_JOB *j = L_get_next_job(t.mgr.m);
                                static uint8_t wbuf[16], wtag[4];
                                memset(j, 0, sizeof *j);
                                j->cipher_mode = IMB_CIPHER_NULL;
                                j->hash_alg = IMB_AUTH_CRC32_ETHERNET_FCS;
                                j->chain_order = IMB_ORDER_HASH_CIPHER;
                                j->cipher_direction = IMB_DIR_ENCRYPT;
                                j->src = wbuf;
                                j->msg_len_to_hash_in_bytes = 16;
                                j->auth_tag_output = wtag;
                                j->auth_tag_output_len_in_bytes = 4;
                                IMB_JOB *r = L_submit_job(t.mgr.m);
                                if (!r)
                                        r = L_flush_job(t.mgr.m);
                        }
                }
                for (size_t k = 0; k < p.ops.size(); k++) {
                        const Op &op = p.ops[k];
                        if (op.task >= c.tasks.size())
                                continue;
                        if (o.only_task >= 0 && op.task != o.only_task)
                                continue;
                        // C17 L2: the next op (another task's) runs inside this op's library call
                        bool nest = false;
                        NestArg na;
                        if (op.pre && o.only_task < 0 && k + 1 < p.ops.size()) {
                                const Op &nx = p.ops[k + 1];
                                nest = nx.task != op.task && nx.task < c.tasks.size() && nx.kind != OP_REATTACH && nx.kind != OP_MARK &&
                                       !(p.oracles & OR_SCRUB);
                        }
                        if (nest) {
                                na.c = &c;
                                na.k = k + 1;
                                g_pre.armed = 1;
                                g_pre.fired = 0;
                                g_pre.stepping = 0;
                                g_pre.n = op.pre;
                                g_pre.fn = nested_op;
                                g_pre.arg = &na;
                        }
                        exec_op(c, k);
                        if (nest) {
                                g_pre.armed = 0;
                                if (g_pre.fired) {
                                        ctr(c, CT_PREEMPT_FIRED);
                                        k++; // already executed inside the call
                                } else
                                        ctr(c, CT_PREEMPT_MISSED);
                                g_pre.fired = 0;
                        }
                        if (res.viols.size() >= 8)
                                break;
                }
                // end of run: drain every task (bounded liveness, exactly the remaining FIFO)
                c.op_index = (int) p.ops.size();
                if (res.viols.size() < 8)
                        for (size_t i = 0; i < c.tasks.size(); i++) {
                                if (o.only_task >= 0 && (int) i != o.only_task)
                                        continue;
                                c.cur_task = &c.tasks[i];
                                op_flush_all(c, c.tasks[i]);
                                op_queue_size(c, c.tasks[i]);
                        }
        done:
                g_jmp_armed = 0;
                watchdog(0);
        } else {
                // a signal ended the run
                watchdog(0);
                res.crashed = true;
                char b[256];
                if (sig == SIGPROF) {
                        snprintf(b, sizeof b, "%s did not return within 60 s of CPU time (op %d): the library is spinning", g_callctx.name, c.op_index);
                        Violation v;
                        v.prop = p.prop;
                        v.oracle = "hang";
                        v.detail = b;
                        v.op_index = c.op_index;
                        v.key = std::string("hang;fn=") + g_callctx.name;
                        res.viols.push_back(v);
                        g_dm_cur.active = false;
                } else
                if (g_dm_cur.active) {
                        snprintf(b, sizeof b, "%s with argument %d ('%c') %s faulted (signal %d at rip %p accessing %p%s) instead of returning an error",
                                 g_dm_cur.fn, g_dm_cur.arg, g_dm_cur.kind, g_dm_cur.how, sig, g_fault.rip, g_fault.addr,
                                 g_fault.guard ? ", a guard page" : "");
                        Violation v;
                        v.prop = "C12";
                        v.oracle = "reject.fault";
                        v.detail = b;
                        v.op_index = c.op_index;
                        v.key = std::string("variant=") + (c.cur_task && c.cur_task->mgr.m ? arch_type_name(c.cur_task->mgr.m) : "?") +
                                ";fn=" + g_dm_cur.fn + ";arg=" + std::string(1, g_dm_cur.kind);
                        res.viols.push_back(v);
                        g_dm_cur.active = false;
                } else if (g_fault.guard) {
                        std::string d = attribute_fault(c, g_aux_live);
                        std::string key;
                        size_t sp = d.find('\x01');
                        if (sp != std::string::npos) {
                                key = d.substr(sp + 1);
                                d = d.substr(0, sp);
                        }
                        violate(c, g_fault.write ? "guard.write" : "guard.read", d, key);
                } else {
                        snprintf(b, sizeof b, "signal %d at rip %p accessing %p during %s (op %d)", sig, g_fault.rip, g_fault.addr,
                                 g_callctx.name, c.op_index);
                        Violation v;
                        v.prop = p.prop;
                        v.oracle = "crash";
                        v.detail = b;
                        v.op_index = c.op_index;
                        v.key = std::string("crash;fn=") + g_callctx.name;
                        res.viols.push_back(v);
                }
        }
        // F12 plans (a synchronous burst while asynchronous jobs are parked): whatever goes wrong in them is one
        // class of its own, reported under the entry-point property
        bool f12 = false;
        for (auto &op : p.ops)
                if (op.kind == OP_SYNC_BURST && op.b == 12)
                        f12 = true;
        if (f12)
                for (auto &v : res.viols) {
                        if (v.oracle.compare(0, 4, "f12.") != 0)
                                v.oracle = "f12." + v.oracle;
                        v.prop = "C09";
                        v.key = "schedule=sync-burst-while-async-jobs-of-the-same-family-are-parked";
                }
        for (size_t i = 0; i < c.tasks.size(); i++) {
                res.task_hash[i] = c.tasks[i].hash;
                res.task_hash_user[i] = c.tasks[i].hash_user;
                drop_all(c, c.tasks[i]);
        }
        for (auto *st : c.streams)
                if (st) {
                        mat_release(st->mj);
                        delete st;
                }
        res.ctr[CT_CALLS] = g_calls_total - calls0;
        if (c.copyA_dead)
                image_protect(image_copy(0), false); // next run starts with both copies usable again
        g_ctx = nullptr;
        g_cc_violation = nullptr;
        g_callctx.scrub = false;
        g_jmp_armed = 0;
        return res;
}


// ------------------------------------------------------------------ isolated execution (fork per run)
#include <sys/wait.h>
namespace {
void
put_u64(std::string &b, uint64_t v)
{
        b.append((const char *) &v, 8);
}
void
put_str(std::string &b, const std::string &x)
{
        put_u64(b, x.size());
        b.append(x);
}
struct Rd {
        const std::string &b;
        size_t pos = 0;
        bool ok = true;
        uint64_t u64()
        {
                if (pos + 8 > b.size()) {
                        ok = false;
                        return 0;
                }
                uint64_t v;
                memcpy(&v, b.data() + pos, 8);
                pos += 8;
                return v;
        }
        std::string str()
        {
                uint64_t n = u64();
                if (!ok || pos + n > b.size()) {
                        ok = false;
                        return "";
                }
                std::string x = b.substr(pos, n);
                pos += n;
                return x;
        }
};
} // namespace

RunResult
run_plan_isolated(const Plan &p, const RunOpts &o)
{
        int fd[2];
        if (pipe(fd) != 0)
                return run_plan(p, o);
        fflush(stdout);
        fflush(stderr);
        pid_t pid = fork();
        if (pid == 0) {
                close(fd[0]);
                RunResult r = run_plan(p, o);
                std::string b;
                put_u64(b, r.log_hash);
                put_u64(b, r.suffix_hash);
                put_u64(b, r.crashed);
                put_u64(b, r.task_hash.size());
                for (auto x : r.task_hash)
                        put_u64(b, x);
                put_u64(b, r.task_hash_user.size());
                for (auto x : r.task_hash_user)
                        put_u64(b, x);
                for (int k = 0; k < CT_N; k++)
                        put_u64(b, r.ctr[k]);
                put_u64(b, r.states.size());
                for (auto x : r.states)
                        put_u64(b, x);
                put_u64(b, r.viols.size());
                for (auto &v : r.viols) {
                        put_str(b, v.prop);
                        put_str(b, v.oracle);
                        put_str(b, v.detail);
                        put_u64(b, (uint64_t) (int64_t) v.op_index);
                        put_str(b, v.key);
                }
                put_u64(b, r.log.size());
                for (auto &l : r.log)
                        put_str(b, l);
                size_t off = 0;
                while (off < b.size()) {
                        ssize_t w = write(fd[1], b.data() + off, b.size() - off);
                        if (w <= 0)
                                break;
                        off += (size_t) w;
                }
                close(fd[1]);
                _exit(0);
        }
        close(fd[1]);
        std::string b;
        char buf[65536];
        for (;;) {
                ssize_t n = read(fd[0], buf, sizeof buf);
                if (n <= 0)
                        break;
                b.append(buf, (size_t) n);
        }
        close(fd[0]);
        int st = 0;
        waitpid(pid, &st, 0);
        RunResult r;
        Rd rd{ b };
        r.log_hash = rd.u64();
        r.suffix_hash = rd.u64();
        r.crashed = rd.u64() != 0;
        uint64_t n = rd.u64();
        for (uint64_t i = 0; i < n && rd.ok; i++)
                r.task_hash.push_back(rd.u64());
        n = rd.u64();
        for (uint64_t i = 0; i < n && rd.ok; i++)
                r.task_hash_user.push_back(rd.u64());
        for (int k = 0; k < CT_N; k++)
                r.ctr[k] = rd.u64();
        n = rd.u64();
        for (uint64_t i = 0; i < n && rd.ok; i++)
                r.states.insert(rd.u64());
        n = rd.u64();
        for (uint64_t i = 0; i < n && rd.ok; i++) {
                Violation v;
                v.prop = rd.str();
                v.oracle = rd.str();
                v.detail = rd.str();
                v.op_index = (int) (int64_t) rd.u64();
                v.key = rd.str();
                r.viols.push_back(v);
        }
        n = rd.u64();
        for (uint64_t i = 0; i < n && rd.ok; i++)
                r.log.push_back(rd.str());
        if (!rd.ok || !WIFEXITED(st) || WEXITSTATUS(st) != 0) {
                // the child died outside the simulator's own fault handling
                r = RunResult();
                r.crashed = true;
                r.task_hash.assign(p.task_cfg.size(), 0);
                r.task_hash_user.assign(p.task_cfg.size(), 0);
                Violation v;
                v.prop = p.prop;
                v.oracle = "crash";
                v.detail = "the process executing the run died";
                v.key = "crash;fn=process";
                r.viols.push_back(v);
        }
        return r;
}

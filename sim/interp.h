// Plans (the schedule and the faults are ops), the interpreter, the reference
// scheduler model and the oracles evaluated while a run proceeds. DESIGN.md 2.
#pragma once
#include "jobspec.h"
#include "mat.h"
#include "gen.h"
#include <deque>
#include <set>
#include <map>
#include <functional>

enum OpKind : uint8_t {
        OP_SUBMIT = 0,    // jobs[0]; nocheck
        OP_GET_COMPLETED,
        OP_FLUSH,
        OP_FLUSH_ALL,
        OP_QUEUE_SIZE,
        OP_GET_NEXT,      // slot taken and abandoned
        OP_BURST,         // jobs[0..n): get_next_burst + fill + submit_burst[_nocheck]
        OP_FLUSH_BURST,   // a = max jobs
        OP_REINIT,        // a = new cfg                       (fault F3)
        OP_REATTACH,      // a = mode 0 same-image 1 other-image (fault F4)
        OP_MISUSE,        // a = kind                           (fault F11)
        OP_MARK,          // start of the suffix whose history is hashed separately
        OP_SYNC_BURST,    // jobs[0..n): synchronous cipher/hash/aead burst; a = kind, nocheck
        OP_DIRECT,        // jobs[0..n): direct API; a = entry point id
        OP_KEYPREP,       // a = helper id; jobs[0] carries key seed / lengths
        OP_SGL_SEG,       // a = stream id, b = segment index
        OP_NKINDS
};
extern const char *const op_names[OP_NKINDS];

struct Op {
        uint8_t kind = OP_SUBMIT;
        uint8_t task = 0;
        uint8_t nocheck = 0;
        int32_t a = 0, b = 0;
        uint32_t pre = 0; // C17 L2: pre-empt this op's library call after `pre` instructions and run the next op (another task) there
        std::vector<JobSpec> jobs;
};

// oracle switches
enum : uint32_t {
        OR_FIFO = 1u << 0,   // scheduler model (C05)
        OR_DESC = 1u << 1,   // descriptor snapshot + errno (C14)
        OR_SOLO = 1u << 2,   // solo-run differential (C04)
        OR_MEM = 1u << 3,    // canaries, read-only objects, source range (C07)
        OR_REF = 1u << 4,    // textbook reference (C01-C03, C06)
        OR_SCRUB = 1u << 5,  // SAFE_DATA residue scan at quiescence (C13)
        OR_REJECT = 1u << 6, // invalid jobs: untouched + errno (C12)
        OR_XVAR = 1u << 7,   // cross-variant solo (C08)
};

struct SglStream {
        JobSpec base;               // cipher *_SGL, whole-message geometry
        std::vector<uint32_t> segs; // segment lengths (may contain zeros)
};

struct Plan {
        uint64_t seed = 0;
        std::string profile;
        std::string prop;            // property the check owns
        std::vector<int> task_cfg;   // variant configuration per task
        uint32_t oracles = 0;
        uint32_t warmup = 0;         // immediate jobs submitted first to move the ring position
        int helper_cfg = -1;         // variant whose helpers prepare keys (-1: the task's own)
        std::vector<SglStream> streams;
        std::vector<Op> ops;
};
std::string plan_to_json(const Plan &p);
int direct_misuse_count(); // number of entries in the direct-API misuse catalogue (ops_dmisuse.inc)
bool plan_from_json(const std::string &txt, Plan &p, std::string *err = nullptr);

struct Violation {
        std::string prop;   // C01..C20
        std::string oracle; // e.g. "fifo.order"
        std::string detail;
        int op_index = -1;
        std::string key;    // structured key for known-finding matching ("" if none)
};

enum Ctr {
        CT_OPS = 0, CT_CALLS, CT_JOBS_SUBMITTED, CT_JOBS_COMPLETED, CT_JOBS_INVALID, CT_SUBMIT_RET_NULL,
        CT_SUBMIT_RET_JOB, CT_FLUSH_NONEMPTY, CT_FLUSH_EMPTY, CT_GETC_NULL_NONEMPTY, CT_GETC_JOB,
        CT_QUEUE_FULL_FORCED, CT_RING_WRAP, CT_BURST, CT_BURST_STRADDLE, CT_BURST_REJECTED, CT_BURST_PARTIAL_SLOTS,
        CT_FLUSH_BURST, CT_REINIT_INFLIGHT, CT_REINIT_IDLE, CT_REATTACH_INFLIGHT, CT_REATTACH_IDLE,
        CT_MISUSE, CT_SOLO_RUNS, CT_REF_CHECKS, CT_REF_SKIPPED, CT_MEM_CHECKS, CT_GUARD_PLACED_END, CT_GUARD_PLACED_START,
        CT_CHAINED_JOBS, CT_OOP_JOBS, CT_SPECIAL_IV, CT_MAX_INFLIGHT, CT_SCRUB_SCANS, CT_SYNC_BURST, CT_DIRECT,
        CT_KEYPREP, CT_SGL_SEGS, CT_XVAR_RUNS, CT_DEGRADED_OPS, CT_REATTACH_OTHER_IMAGE, CT_PREEMPT_FIRED, CT_PREEMPT_MISSED,
        CT_SGL_INVALID, CT_N
};
extern const char *const ctr_names[CT_N];

struct RunResult {
        uint64_t log_hash = 0;
        uint64_t suffix_hash = 0;          // events after OP_MARK only
        std::vector<uint64_t> task_hash;   // per-task history hash (C17)
        std::vector<uint64_t> task_hash_user; // the same plus what imb_get_errno() returns after every op (C17)
        std::vector<Violation> viols;
        bool crashed = false;
        uint64_t ctr[CT_N] = { 0 };
        std::set<uint64_t> states;         // distinct (abstract state, op kind) pairs
        std::vector<std::string> log;      // human-readable event log (only when requested)
        std::map<std::string, uint64_t> suites; // jobs completed per suite name (when requested)
};

struct RunOpts {
        bool want_log = false;
        bool want_suites = false;
        int only_task = -1; // run only this task's ops (C17 solo history)
};

RunResult run_plan(const Plan &p, const RunOpts &o = RunOpts());
// the same in a forked child: the library starts every run from the process image of the parent, which never
// executes a plan itself - needed where the property is about process-wide state (C17): state left behind in the
// library's globals by one run would otherwise leak into the next run of the worker and make results irreproducible
RunResult run_plan_isolated(const Plan &p, const RunOpts &o = RunOpts());

// property an oracle id belongs to (attribution rule, DESIGN 2.5)
const char *oracle_property(const std::string &oracle, const JobSpec *s);

// invalid-job catalogue (C12): mutate a filled descriptor; returns acceptable error codes
struct ViolInfo {
        const char *name;
};
int viol_count();
const char *viol_name(int v);
// true if violation v is applicable to this (valid) spec
bool viol_applies(int v, const JobSpec &s);
// apply to descriptor; fills set of acceptable imb errno values
void viol_apply(int v, const JobSpec &s, IMB_JOB *job, std::vector<int> &errs);

// reference model hook (ref/): returns false if no admitted reference for this spec
struct RefOut {
        std::vector<uint8_t> dst, tag, src_post, niv;
        uint8_t dst_mask_last = 0xFF;      // bit-length modes: which bits of the last dst byte are defined
        std::vector<uint8_t> dst_mask;     // optional per-byte mask for dst (empty: all bits compared)
};
bool ref_compute(const JobSpec &s, const MatJob &mj, RefOut &out);

// Constraint catalogue for invalid jobs (C12). Each entry mutates one field of a
// valid, fully filled descriptor and names the error code(s) the documentation
// assigns to that constraint.
#include <algorithm>
#include "interp.h"

namespace {

enum V {
        V_NONE = 0,
        V_NULL_SRC,
        V_NULL_DST,
        V_NULL_IV,
        V_NULL_KEY,
        V_KEY_LEN,
        V_ZERO_CIPH_LEN,
        V_MISALIGNED_CIPH_LEN,
        V_OVER_CIPH_LEN,
        V_IV_LEN,
        V_CIPHER_MODE,
        V_HASH_ALG,
        V_DIRECTION,
        V_NULL_TAG,
        V_TAG_LEN,
        V_ZERO_AUTH_LEN,
        V_OVER_AUTH_LEN,
        V_NULL_AUTH_KEY1,
        V_NULL_AUTH_KEY2,
        V_NULL_AUTH_KEY3,
        V_NULL_AAD,
        V_CCM_AAD_LEN,
        V_AEAD_CIPHER_WITH_OTHER_HASH,
        V_AEAD_HASH_WITH_OTHER_CIPHER,
        V_DOCSIS_CHAIN_ORDER,
        V_CCM_LEN_MISMATCH,
        V_CCM_OFFSET_MISMATCH,
        V_NULL_NEXT_IV,
        V_NULL_AUTH_IV,
        V_PON_PLI,
        V_PON_DST_NOT_INPLACE,
        V_NULL_SGL_CTX,
        V_SGL_STATE,
        V_COUNT
};

const char *names[V_COUNT] = { "none", "null_src", "null_dst", "null_iv", "null_key", "key_len", "zero_cipher_len",
                               "misaligned_cipher_len", "over_limit_cipher_len", "iv_len", "cipher_mode", "hash_alg",
                               "cipher_direction", "null_tag", "tag_len", "zero_auth_len", "over_limit_auth_len",
                               "null_auth_key1", "null_auth_key2", "null_auth_key3", "null_aad", "ccm_aad_len",
                               "aead_cipher_with_other_hash", "aead_hash_with_other_cipher", "docsis_chain_order",
                               "ccm_len_mismatch", "ccm_offset_mismatch", "null_next_iv", "null_auth_iv", "pon_pli",
                               "pon_dst_not_inplace", "null_sgl_ctx", "sgl_state" };

bool
cipher_block_mode(int c)
{
        return c == IMB_CIPHER_CBC || c == IMB_CIPHER_ECB || c == IMB_CIPHER_CFB || c == IMB_CIPHER_CBCS_1_9 ||
               c == IMB_CIPHER_DES || c == IMB_CIPHER_DES3 || c == IMB_CIPHER_SM4_ECB || c == IMB_CIPHER_SM4_CBC;
}
bool
cipher_needs_iv(int c)
{
        return c != IMB_CIPHER_NULL && c != IMB_CIPHER_ECB && c != IMB_CIPHER_SM4_ECB;
}
bool
cipher_zero_len_invalid(int c)
{
        switch (c) {
        case IMB_CIPHER_CBC:
        case IMB_CIPHER_CBCS_1_9:
        case IMB_CIPHER_ECB:
        case IMB_CIPHER_CNTR:
        case IMB_CIPHER_CNTR_BITLEN:
        case IMB_CIPHER_DES:
        case IMB_CIPHER_DOCSIS_DES:
        case IMB_CIPHER_DES3:
        case IMB_CIPHER_ZUC_EEA3:
        case IMB_CIPHER_SNOW3G_UEA2_BITLEN:
        case IMB_CIPHER_KASUMI_UEA1_BITLEN:
        case IMB_CIPHER_CHACHA20:
        case IMB_CIPHER_SM4_CNTR:
        case IMB_CIPHER_SM4_CBC:
        case IMB_CIPHER_SM4_ECB: return true;
        }
        return false;
}
bool
hash_is_hmac(int h)
{
        return h == IMB_AUTH_HMAC_SHA_1 || h == IMB_AUTH_HMAC_SHA_224 || h == IMB_AUTH_HMAC_SHA_256 ||
               h == IMB_AUTH_HMAC_SHA_384 || h == IMB_AUTH_HMAC_SHA_512 || h == IMB_AUTH_MD5 || h == IMB_AUTH_HMAC_SM3;
}
bool
hash_is_cmac(int h)
{
        return h == IMB_AUTH_AES_CMAC || h == IMB_AUTH_AES_CMAC_BITLEN || h == IMB_AUTH_AES_CMAC_256;
}
bool
hash_is_gmac(int h)
{
        return h == IMB_AUTH_AES_GMAC_128 || h == IMB_AUTH_AES_GMAC_192 || h == IMB_AUTH_AES_GMAC_256;
}
bool
hash_has_aad(int h)
{
        return h == IMB_AUTH_AES_GMAC || h == IMB_AUTH_AES_CCM || h == IMB_AUTH_CHACHA20_POLY1305 ||
               h == IMB_AUTH_SNOW_V_AEAD || h == IMB_AUTH_SM4_GCM;
}
// smallest cipher length above the documented limit that still satisfies the mode's alignment rule (so that only the limit
// check can reject it); for bit-length modes the value is in bits
bool
over_limit_cipher(const JobSpec &s, uint64_t &v)
{
        switch (s.cipher) {
        case IMB_CIPHER_CBC:
                if (s.dir != IMB_DIR_ENCRYPT)
                        return false; // documented for encryption only
                v = 65536;
                return true;
        case IMB_CIPHER_ECB:
        case IMB_CIPHER_DES:
        case IMB_CIPHER_DES3:
        case IMB_CIPHER_SM4_CBC: v = 65535 + 1; return true; // > MB_MAX_LEN16, keeps block alignment
        case IMB_CIPHER_DOCSIS_DES:
        case IMB_CIPHER_DOCSIS_SEC_BPI:
        case IMB_CIPHER_CCM: v = 65535; return true;
        case IMB_CIPHER_CBCS_1_9: v = 1ULL << 60; return true;
        case IMB_CIPHER_GCM:
        case IMB_CIPHER_GCM_SGL:
        case IMB_CIPHER_SM4_GCM: v = IMB_GCM_MAX_LEN + 1; return true;
        case IMB_CIPHER_CHACHA20:
        case IMB_CIPHER_CHACHA20_POLY1305:
        case IMB_CIPHER_CHACHA20_POLY1305_SGL: v = IMB_CHACHA20_POLY1305_MAX_LEN + 1; return true;
        case IMB_CIPHER_SNOW3G_UEA2_BITLEN: v = 1ULL << 32; return true;
        case IMB_CIPHER_ZUC_EEA3: v = 8189; return true;
        case IMB_CIPHER_KASUMI_UEA1_BITLEN: v = 20001; return true;
        case IMB_CIPHER_PON_AES_CNTR:
                if (!s.c_len)
                        return false;
                v = (1u << 14) + 4; // > 2^14 + 8 - 8, multiple of 4
                return true;
        }
        return false;
}

} // namespace

int viol_count() { return V_COUNT; }
const char *viol_name(int v) { return (v > 0 && v < V_COUNT) ? names[v] : "none"; }

bool
viol_applies(int v, const JobSpec &s)
{
        const int c = s.cipher, h = s.hash;
        const bool aead_c = aead_hash_for(c) != 0;
        uint64_t tmp;
        if (c == IMB_CIPHER_GCM_SGL || c == IMB_CIPHER_CHACHA20_POLY1305_SGL) {
                // scatter-gather jobs: the constraints depend on the stream state the job carries. GCM checks the tag only
                // where one is produced (COMPLETE, ALL) and the AAD only where it is consumed (INIT, ALL); ChaCha20-Poly1305
                // checks both in every state.
                const bool gcm = c == IMB_CIPHER_GCM_SGL;
                const int st = s.sgl_state;
                switch (v) {
                case V_NULL_SRC:
                case V_NULL_DST: return s.c_len != 0;
                case V_NULL_IV:
                case V_NULL_KEY:
                case V_KEY_LEN:
                case V_IV_LEN:
                case V_CIPHER_MODE:
                case V_HASH_ALG:
                case V_DIRECTION:
                case V_AEAD_CIPHER_WITH_OTHER_HASH:
                case V_AEAD_HASH_WITH_OTHER_CIPHER:
                case V_NULL_SGL_CTX:
                case V_OVER_CIPH_LEN:
                case V_SGL_STATE: return true;
                case V_NULL_TAG:
                case V_TAG_LEN: return !gcm || st == IMB_SGL_COMPLETE || st == IMB_SGL_ALL;
                case V_NULL_AAD: return s.aad_len > 0 && (!gcm || st == IMB_SGL_INIT || st == IMB_SGL_ALL);
                default: return false;
                }
        }
        switch (v) {
        case V_NULL_SRC:
                if (c == IMB_CIPHER_NULL)
                        return h != IMB_AUTH_NULL && (spec_h_bytes(s) != 0 || hash_is_hmac(h) || h == IMB_AUTH_AES_XCBC ||
                                                      hash_is_cmac(h) || h == IMB_AUTH_POLY1305 || h == IMB_AUTH_SHA_1) &&
                               !hash_is_gmac(h) && h != IMB_AUTH_GHASH;
                if (c == IMB_CIPHER_GCM_SGL || c == IMB_CIPHER_CHACHA20_POLY1305_SGL)
                        return false;
                return s.c_len != 0;
        case V_NULL_DST:
                if (c == IMB_CIPHER_NULL || c == IMB_CIPHER_GCM_SGL || c == IMB_CIPHER_CHACHA20_POLY1305_SGL)
                        return false;
                return s.c_len != 0;
        case V_NULL_IV:
                if (c == IMB_CIPHER_PON_AES_CNTR)
                        return s.c_len != 0;
                return cipher_needs_iv(c);
        case V_NULL_KEY:
                if (c == IMB_CIPHER_NULL || c == IMB_CIPHER_DES3)
                        return false;
                if (c == IMB_CIPHER_PON_AES_CNTR)
                        return s.c_len != 0;
                return true;
        case V_KEY_LEN:
                if (c == IMB_CIPHER_NULL)
                        return false;
                if (c == IMB_CIPHER_PON_AES_CNTR)
                        return s.c_len != 0;
                return true;
        case V_ZERO_CIPH_LEN: return cipher_zero_len_invalid(c);
        case V_MISALIGNED_CIPH_LEN: return cipher_block_mode(c) || (c == IMB_CIPHER_PON_AES_CNTR && s.c_len != 0);
        case V_OVER_CIPH_LEN: return over_limit_cipher(s, tmp);
        case V_IV_LEN:
                if (c == IMB_CIPHER_PON_AES_CNTR)
                        return s.c_len != 0;
                return cipher_needs_iv(c);
        case V_CIPHER_MODE: return true;
        case V_HASH_ALG: return true;
        case V_DIRECTION: return c != IMB_CIPHER_NULL;
        case V_NULL_TAG: return h != IMB_AUTH_NULL;
        case V_TAG_LEN: return h != IMB_AUTH_NULL;
        case V_ZERO_AUTH_LEN:
                return hash_is_hmac(h) || h == IMB_AUTH_ZUC_EIA3_BITLEN || h == IMB_AUTH_ZUC256_EIA3_BITLEN ||
                       h == IMB_AUTH_SNOW3G_UIA2_BITLEN || h == IMB_AUTH_KASUMI_UIA1;
        case V_OVER_AUTH_LEN:
                return hash_is_hmac(h) && h != IMB_AUTH_HMAC_SM3 ? true
                                                                  : (h == IMB_AUTH_AES_XCBC || hash_is_cmac(h) ||
                                                                     h == IMB_AUTH_SHA_1 || h == IMB_AUTH_SHA_224 ||
                                                                     h == IMB_AUTH_SHA_256 || h == IMB_AUTH_SHA_384 ||
                                                                     h == IMB_AUTH_SHA_512 || h == IMB_AUTH_ZUC_EIA3_BITLEN ||
                                                                     h == IMB_AUTH_ZUC256_EIA3_BITLEN ||
                                                                     h == IMB_AUTH_SNOW3G_UIA2_BITLEN ||
                                                                     h == IMB_AUTH_DOCSIS_CRC32 || h == IMB_AUTH_KASUMI_UIA1);
        case V_NULL_AUTH_KEY1:
                return hash_is_hmac(h) || h == IMB_AUTH_AES_XCBC || hash_is_cmac(h) || hash_is_gmac(h) ||
                       h == IMB_AUTH_GHASH || h == IMB_AUTH_POLY1305 || h == IMB_AUTH_ZUC_EIA3_BITLEN ||
                       h == IMB_AUTH_ZUC256_EIA3_BITLEN || h == IMB_AUTH_SNOW3G_UIA2_BITLEN || h == IMB_AUTH_KASUMI_UIA1;
        case V_NULL_AUTH_KEY2: return hash_is_hmac(h) || h == IMB_AUTH_AES_XCBC || hash_is_cmac(h);
        case V_NULL_AUTH_KEY3: return h == IMB_AUTH_AES_XCBC || hash_is_cmac(h);
        case V_NULL_AAD: return hash_has_aad(h) && s.aad_len > 0;
        case V_CCM_AAD_LEN: return h == IMB_AUTH_AES_CCM;
        case V_AEAD_CIPHER_WITH_OTHER_HASH:
                return c == IMB_CIPHER_GCM || c == IMB_CIPHER_CCM || c == IMB_CIPHER_SM4_GCM ||
                       c == IMB_CIPHER_SNOW_V_AEAD || c == IMB_CIPHER_PON_AES_CNTR || c == IMB_CIPHER_CHACHA20_POLY1305;
        case V_AEAD_HASH_WITH_OTHER_CIPHER:
                return aead_c || h == IMB_AUTH_DOCSIS_CRC32;
        case V_DOCSIS_CHAIN_ORDER: return h == IMB_AUTH_DOCSIS_CRC32;
        case V_CCM_LEN_MISMATCH: return c == IMB_CIPHER_CCM && s.c_len > 1;
        case V_CCM_OFFSET_MISMATCH: return c == IMB_CIPHER_CCM;
        case V_NULL_NEXT_IV: return c == IMB_CIPHER_CBCS_1_9;
        case V_NULL_AUTH_IV:
                return hash_is_gmac(h) || h == IMB_AUTH_ZUC_EIA3_BITLEN || h == IMB_AUTH_ZUC256_EIA3_BITLEN ||
                       h == IMB_AUTH_SNOW3G_UIA2_BITLEN || h == IMB_AUTH_GHASH;
        case V_PON_PLI: return c == IMB_CIPHER_PON_AES_CNTR && s.c_len >= 8;
        case V_PON_DST_NOT_INPLACE: return c == IMB_CIPHER_PON_AES_CNTR;
        case V_NULL_SGL_CTX:
        case V_SGL_STATE: return false; // scatter-gather suites only (handled above)
        }
        return false;
}

void
viol_apply(int v, const JobSpec &s, IMB_JOB *j, std::vector<int> &e)
{
        const int c = s.cipher, h = s.hash;
        uint64_t big = 0;
        switch (v) {
        case V_NULL_SRC:
                if ((c == IMB_CIPHER_GCM_SGL || c == IMB_CIPHER_CHACHA20_POLY1305_SGL) && s.sgl_state == IMB_SGL_ALL) {
                        // the segment list is the source: no list at all, or one non-empty segment without an input pointer
                        struct IMB_SGL_IOV *iov = (struct IMB_SGL_IOV *) (uintptr_t) j->sgl_io_segs;
                        std::vector<uint64_t> ne;
                        for (uint64_t i = 0; i < j->num_sgl_io_segs; i++)
                                if (iov[i].len)
                                        ne.push_back(i);
                        if ((s.seed & 3) == 0 || ne.empty())
                                j->sgl_io_segs = nullptr;
                        else
                                iov[ne[(s.seed >> 2) % ne.size()]].in = nullptr;
                        e = { IMB_ERR_JOB_NULL_SRC };
                        break;
                }
                j->src = nullptr;
                e = { IMB_ERR_JOB_NULL_SRC };
                if (c == IMB_CIPHER_PON_AES_CNTR)
                        e.push_back(EINVAL);
                break;
        case V_NULL_DST:
                if ((c == IMB_CIPHER_GCM_SGL || c == IMB_CIPHER_CHACHA20_POLY1305_SGL) && s.sgl_state == IMB_SGL_ALL) {
                        struct IMB_SGL_IOV *iov = (struct IMB_SGL_IOV *) (uintptr_t) j->sgl_io_segs;
                        std::vector<uint64_t> ne;
                        for (uint64_t i = 0; i < j->num_sgl_io_segs; i++)
                                if (iov[i].len)
                                        ne.push_back(i);
                        if (!ne.empty())
                                iov[ne[(s.seed >> 2) % ne.size()]].out = nullptr;
                        else
                                j->sgl_io_segs = nullptr;
                        e = { ne.empty() ? IMB_ERR_JOB_NULL_SRC : IMB_ERR_JOB_NULL_DST };
                        break;
                }
                j->dst = nullptr;
                e = { IMB_ERR_JOB_NULL_DST };
                if (c == IMB_CIPHER_PON_AES_CNTR)
                        e.push_back(EINVAL);
                break;
        case V_NULL_IV: j->iv = nullptr; e = { IMB_ERR_JOB_NULL_IV }; break;
        case V_NULL_KEY:
                j->enc_keys = nullptr;
                j->dec_keys = nullptr;
                e = { IMB_ERR_JOB_NULL_KEY };
                break;
        case V_KEY_LEN: {
                static const uint64_t bad[] = { 0, 1, 7, 12, 17, 20, 33, 64 };
                uint64_t k = bad[s.seed % 8];
                // pick a value that no mode accepts for this cipher
                if (c == IMB_CIPHER_PON_AES_CNTR && k == 16)
                        k = 17;
                if ((c == IMB_CIPHER_DES || c == IMB_CIPHER_DOCSIS_DES) && k == 8)
                        k = 7;
                if ((s.seed >> 5) & 1) {
                        // a key size that other modes accept but this one does not
                        static const uint64_t common[] = { 8, 16, 24, 32 };
                        std::vector<int> ok = cipher_key_lens(c);
                        for (int t = 0; t < 4; t++) {
                                uint64_t cand = common[(s.seed / 64 + (uint64_t) t) % 4];
                                if (std::find(ok.begin(), ok.end(), (int) cand) == ok.end()) {
                                        k = cand;
                                        break;
                                }
                        }
                }
                j->key_len_in_bytes = k;
                e = { IMB_ERR_JOB_KEY_LEN, IMB_ERR_BURST_SUITE_ID }; // the burst API notices the changed session first
                break;
        }
        case V_ZERO_CIPH_LEN: j->msg_len_to_cipher_in_bytes = 0; e = { IMB_ERR_JOB_CIPH_LEN }; break;
        case V_MISALIGNED_CIPH_LEN:
                j->msg_len_to_cipher_in_bytes += 1 + (s.seed % ((c == IMB_CIPHER_PON_AES_CNTR) ? 3 : 7));
                e = { IMB_ERR_JOB_CIPH_LEN };
                if (c == IMB_CIPHER_PON_AES_CNTR)
                        e.push_back(IMB_ERR_JOB_PON_PLI);
                break;
        case V_OVER_CIPH_LEN:
                over_limit_cipher(s, big);
                e = { IMB_ERR_JOB_CIPH_LEN };
                if ((c == IMB_CIPHER_GCM_SGL || c == IMB_CIPHER_CHACHA20_POLY1305_SGL) && s.sgl_state == IMB_SGL_ALL) {
                        // the limit applies to the sum over the segment list
                        struct IMB_SGL_IOV *iov = (struct IMB_SGL_IOV *) (uintptr_t) j->sgl_io_segs;
                        if (j->num_sgl_io_segs >= 2 && (s.seed & 1)) {
                                iov[0].len = big - 1;
                                iov[1].len = 1;
                                for (uint64_t i = 2; i < j->num_sgl_io_segs; i++)
                                        iov[i].len = 0;
                        } else {
                                iov[0].len = big;
                                for (uint64_t i = 1; i < j->num_sgl_io_segs; i++)
                                        iov[i].len = 0;
                        }
                        break;
                }
                j->msg_len_to_cipher_in_bytes = big;
                if (c == IMB_CIPHER_CCM)
                        j->msg_len_to_hash_in_bytes = big; // keep the two lengths equal: only the limit is violated
                break;
        case V_IV_LEN: {
                uint64_t l = j->iv_len_in_bytes;
                uint64_t nl = (s.seed & 1) ? l + 1 : (l ? l - 1 : 5);
                if (c == IMB_CIPHER_GCM || c == IMB_CIPHER_GCM_SGL)
                        nl = 0;
                if (c == IMB_CIPHER_CCM)
                        nl = (s.seed & 1) ? 14 : 6;
                if ((c == IMB_CIPHER_CNTR || c == IMB_CIPHER_SM4_CNTR) && (nl == 12 || nl == 16))
                        nl = 13;
                if (c == IMB_CIPHER_ZUC_EEA3 && s.key_len == 32 && (nl == 23 || nl == 25))
                        nl = 24;
                // a length that is legal for a sibling configuration only (the checks are per key size / per mode)
                if (c == IMB_CIPHER_ZUC_EEA3 && ((s.seed >> 3) & 1))
                        nl = s.key_len == 32 ? 16 : ((s.seed >> 4) & 1) ? 23 : 25;
                j->iv_len_in_bytes = nl;
                e = { IMB_ERR_JOB_IV_LEN };
                break;
        }
        case V_CIPHER_MODE:
                j->cipher_mode = (IMB_CIPHER_MODE) ((s.seed & 1) ? 0 : (IMB_CIPHER_NUM + (int) (s.seed % 5)));
                e = { IMB_ERR_CIPH_MODE };
                break;
        case V_HASH_ALG:
                j->hash_alg = (IMB_HASH_ALG) ((s.seed & 1) ? 0 : (IMB_AUTH_NUM + (int) (s.seed % 5)));
                e = { IMB_ERR_HASH_ALGO };
                break;
        case V_DIRECTION:
                j->cipher_direction = (IMB_CIPHER_DIRECTION) ((s.seed & 1) ? 0 : 3);
                e = { IMB_ERR_JOB_CIPH_DIR };
                break;
        case V_NULL_TAG: j->auth_tag_output = nullptr; e = { IMB_ERR_JOB_NULL_AUTH }; break;
        case V_TAG_LEN: {
                uint64_t nl = 0;
                switch (h) {
                case IMB_AUTH_AES_CCM: nl = (s.seed & 1) ? 5 : (s.seed & 2) ? 18 : 2; break; // odd, above 16, below 4
                case IMB_AUTH_SM3:
                case IMB_AUTH_HMAC_SM3: nl = (s.seed & 1) ? 0 : 33; break;
                case IMB_AUTH_ZUC256_EIA3_BITLEN: nl = 12; break;
                default:
                        if (hash_is_cmac(h) || hash_is_gmac(h) || h == IMB_AUTH_AES_GMAC || h == IMB_AUTH_GHASH ||
                            h == IMB_AUTH_SM4_GCM || h == IMB_AUTH_GCM_SGL)
                                nl = (s.seed & 1) ? 0 : 17;
                        else
                                nl = j->auth_tag_output_len_in_bytes + 1;
                }
                j->auth_tag_output_len_in_bytes = nl;
                e = { IMB_ERR_JOB_AUTH_TAG_LEN };
                break;
        }
        case V_ZERO_AUTH_LEN:
                // below the documented minimum: zero, or for KASUMI-UIA1 one block or less
                j->msg_len_to_hash_in_bytes = (h == IMB_AUTH_KASUMI_UIA1 && (s.seed & 1)) ? 8 : 0;
                e = { IMB_ERR_JOB_AUTH_LEN };
                break;
        case V_OVER_AUTH_LEN:
                if (h == IMB_AUTH_AES_CMAC_BITLEN)
                        j->msg_len_to_hash_in_bits = 65534 * 8 + 1;
                else if (h == IMB_AUTH_ZUC_EIA3_BITLEN || h == IMB_AUTH_ZUC256_EIA3_BITLEN)
                        j->msg_len_to_hash_in_bits = 65504 + 1;
                else if (h == IMB_AUTH_SNOW3G_UIA2_BITLEN)
                        j->msg_len_to_hash_in_bits = 1ULL << 32;
                else if (h == IMB_AUTH_KASUMI_UIA1)
                        j->msg_len_to_hash_in_bytes = 2501;
                else
                        j->msg_len_to_hash_in_bytes = 65535;
                e = { IMB_ERR_JOB_AUTH_LEN };
                break;
        case V_NULL_AUTH_KEY1:
                if (hash_is_hmac(h)) {
                        j->u.HMAC._hashed_auth_key_xor_ipad = nullptr;
                        e = { IMB_ERR_JOB_NULL_HMAC_IPAD };
                } else if (h == IMB_AUTH_AES_XCBC) {
                        j->u.XCBC._k1_expanded = nullptr;
                        e = { IMB_ERR_JOB_NULL_XCBC_K1_EXP };
                } else if (hash_is_cmac(h)) {
                        j->u.CMAC._key_expanded = nullptr;
                        e = { IMB_ERR_JOB_NULL_KEY };
                } else if (hash_is_gmac(h)) {
                        j->u.GMAC._key = nullptr;
                        e = { IMB_ERR_JOB_NULL_AUTH_KEY };
                } else if (h == IMB_AUTH_GHASH) {
                        j->u.GHASH._key = nullptr;
                        e = { IMB_ERR_JOB_NULL_AUTH_KEY };
                } else if (h == IMB_AUTH_POLY1305) {
                        j->u.POLY1305._key = nullptr;
                        e = { IMB_ERR_JOB_NULL_AUTH_KEY };
                } else {
                        j->u.ZUC_EIA3._key = nullptr; // same slot for SNOW3G / KASUMI
                        e = { IMB_ERR_JOB_NULL_KEY };
                }
                break;
        case V_NULL_AUTH_KEY2:
                if (hash_is_hmac(h)) {
                        j->u.HMAC._hashed_auth_key_xor_opad = nullptr;
                        e = { IMB_ERR_JOB_NULL_HMAC_OPAD };
                } else if (h == IMB_AUTH_AES_XCBC) {
                        j->u.XCBC._k2 = nullptr;
                        e = { IMB_ERR_JOB_NULL_XCBC_K2 };
                } else {
                        j->u.CMAC._skey1 = nullptr;
                        e = { IMB_ERR_JOB_NULL_KEY };
                }
                break;
        case V_NULL_AUTH_KEY3:
                if (h == IMB_AUTH_AES_XCBC) {
                        j->u.XCBC._k3 = nullptr;
                        e = { IMB_ERR_JOB_NULL_XCBC_K3 };
                } else {
                        j->u.CMAC._skey2 = nullptr;
                        e = { IMB_ERR_JOB_NULL_KEY };
                }
                break;
        case V_NULL_AAD: j->u.GCM.aad = nullptr; e = { IMB_ERR_JOB_NULL_AAD }; break;
        case V_CCM_AAD_LEN:
                // the limit is 46 (three AES blocks minus the two length bytes): mostly the first values above it
                j->u.CCM.aad_len_in_bytes = (s.seed & 1) ? 47 : (s.seed & 2) ? 48 : 49 + ((s.seed >> 2) % 100);
                e = { IMB_ERR_JOB_AAD_LEN };
                break;
        case V_AEAD_CIPHER_WITH_OTHER_HASH:
                // keep every pointer the new hash needs valid: plain SHA-1 needs src + tag only
                j->hash_alg = IMB_AUTH_SHA_1;
                j->auth_tag_output_len_in_bytes = 20;
                e = { IMB_ERR_HASH_ALGO };
                break;
        case V_AEAD_HASH_WITH_OTHER_CIPHER:
                j->cipher_mode = IMB_CIPHER_NULL;
                e = { IMB_ERR_CIPH_MODE };
                break;
        case V_DOCSIS_CHAIN_ORDER:
                j->chain_order = j->chain_order == IMB_ORDER_CIPHER_HASH ? IMB_ORDER_HASH_CIPHER : IMB_ORDER_CIPHER_HASH;
                e = { IMB_ERR_JOB_CHAIN_ORDER };
                break;
        case V_CCM_LEN_MISMATCH: j->msg_len_to_hash_in_bytes = j->msg_len_to_cipher_in_bytes - 1; e = { IMB_ERR_JOB_CIPH_LEN }; break;
        case V_CCM_OFFSET_MISMATCH:
                j->hash_start_src_offset_in_bytes = j->cipher_start_src_offset_in_bytes + 1;
                e = { IMB_ERR_JOB_SRC_OFFSET };
                break;
        case V_NULL_NEXT_IV: j->cipher_fields.CBCS.next_iv = nullptr; e = { IMB_ERR_JOB_NULL_NEXT_IV }; break;
        case V_NULL_AUTH_IV:
                if (hash_is_gmac(h)) {
                        j->u.GMAC._iv = nullptr;
                        e = { IMB_ERR_JOB_NULL_IV };
                } else if (h == IMB_AUTH_GHASH) {
                        j->u.GHASH._init_tag = nullptr;
                        e = { IMB_ERR_JOB_NULL_GHASH_INIT_TAG };
                } else if (h == IMB_AUTH_SNOW3G_UIA2_BITLEN) {
                        j->u.SNOW3G_UIA2._iv = nullptr;
                        e = { IMB_ERR_JOB_NULL_IV };
                } else {
                        j->u.ZUC_EIA3._iv = nullptr;
                        j->u.ZUC_EIA3._iv23 = nullptr;
                        e = { IMB_ERR_JOB_NULL_IV };
                }
                break;
        case V_PON_PLI: {
                // PLI larger than the ciphered length allows
                uint8_t *hdr = (uint8_t *) (uintptr_t) (j->src + j->hash_start_src_offset_in_bytes);
                (void) hdr;
                // the header lives in caller memory; instead shrink the cipher length so that PLI-4 > len-4
                uint64_t pli = s.pon_pli;
                if (pli > 8) {
                        j->msg_len_to_cipher_in_bytes = ((pli - 4) & ~3ull) >= 4 ? ((pli - 4) & ~3ull) : 4;
                        if (j->msg_len_to_cipher_in_bytes >= pli)
                                j->msg_len_to_cipher_in_bytes = 4;
                } else
                        j->msg_len_to_cipher_in_bytes = 4;
                e = { IMB_ERR_JOB_PON_PLI };
                if (s.pon_pli <= 8) // cannot make PLI exceed: fall back to an alignment violation
                {
                        j->msg_len_to_cipher_in_bytes = s.c_len + 2;
                        e = { IMB_ERR_JOB_CIPH_LEN };
                }
                break;
        }
        case V_PON_DST_NOT_INPLACE:
                j->dst = j->dst + 1;
                e = { EINVAL };
                break;
        case V_NULL_SGL_CTX: j->u.GCM.ctx = nullptr; e = { IMB_ERR_JOB_NULL_SGL_CTX }; break; // same slot for ChaCha20-Poly1305
        case V_SGL_STATE:
                j->sgl_state = (IMB_SGL_STATE) (IMB_SGL_ALL + 1 + (int) (s.seed % 5));
                e = { IMB_ERR_JOB_SGL_STATE };
                break;
        default: break;
        }
}

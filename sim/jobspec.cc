#include "jobspec.h"
#include <stdio.h>

const char *const obj_names[O_NOBJ] = { "src", "dst", "iv", "aad", "tag", "keyc", "keyc2",
                                        "keya", "keya2", "keya3", "aiv", "niv", "ctx" };

bool
cipher_is_bits(int c)
{
        return c == IMB_CIPHER_CNTR_BITLEN || c == IMB_CIPHER_SNOW3G_UEA2_BITLEN ||
               c == IMB_CIPHER_KASUMI_UEA1_BITLEN;
}
bool cipher_off_is_bits(int c) { return c == IMB_CIPHER_SNOW3G_UEA2_BITLEN || c == IMB_CIPHER_KASUMI_UEA1_BITLEN; }
bool
hash_is_bits(int h)
{
        return h == IMB_AUTH_AES_CMAC_BITLEN || h == IMB_AUTH_ZUC_EIA3_BITLEN ||
               h == IMB_AUTH_ZUC256_EIA3_BITLEN || h == IMB_AUTH_SNOW3G_UIA2_BITLEN;
}

bool
spec_bitpath(const JobSpec &s)
{
        return cipher_off_is_bits(s.cipher) && ((s.c_off & 7) || (s.c_len & 7));
}

const char *
cipher_name(int c)
{
        static const char *n[] = { "?0", "CBC", "CNTR", "NULL", "DOCSIS_SEC_BPI", "GCM", "CUSTOM", "DES",
                                   "DOCSIS_DES", "CCM", "DES3", "PON_AES_CNTR", "ECB", "CNTR_BITLEN",
                                   "ZUC_EEA3", "SNOW3G_UEA2_BITLEN", "KASUMI_UEA1_BITLEN", "CBCS_1_9",
                                   "CHACHA20", "CHACHA20_POLY1305", "CHACHA20_POLY1305_SGL", "SNOW_V",
                                   "SNOW_V_AEAD", "GCM_SGL", "SM4_ECB", "SM4_CBC", "CFB", "SM4_CNTR",
                                   "SM4_GCM" };
        if (c < 0 || c >= (int) (sizeof n / sizeof n[0]))
                return "?";
        return n[c];
}
const char *
hash_name(int h)
{
        static const char *n[] = { "?0", "HMAC_SHA_1", "HMAC_SHA_224", "HMAC_SHA_256", "HMAC_SHA_384",
                                   "HMAC_SHA_512", "AES_XCBC", "HMAC_MD5", "NULL", "AES_GMAC", "CUSTOM",
                                   "AES_CCM", "AES_CMAC", "SHA_1", "SHA_224", "SHA_256", "SHA_384", "SHA_512",
                                   "AES_CMAC_BITLEN", "PON_CRC_BIP", "ZUC_EIA3_BITLEN", "DOCSIS_CRC32",
                                   "SNOW3G_UIA2_BITLEN", "KASUMI_UIA1", "AES_GMAC_128", "AES_GMAC_192",
                                   "AES_GMAC_256", "AES_CMAC_256", "POLY1305", "CHACHA20_POLY1305",
                                   "CHACHA20_POLY1305_SGL", "ZUC256_EIA3_BITLEN", "SNOW_V_AEAD", "GCM_SGL",
                                   "CRC32_ETHERNET_FCS", "CRC32_SCTP", "CRC32_WIMAX_OFDMA_DATA", "CRC24_LTE_A",
                                   "CRC24_LTE_B", "CRC16_X25", "CRC16_FP_DATA", "CRC11_FP_HEADER",
                                   "CRC10_IUUP_DATA", "CRC8_WIMAX_OFDMA_HCS", "CRC7_FP_HEADER",
                                   "CRC6_IUUP_HEADER", "GHASH", "SM3", "HMAC_SM3", "SM4_GCM" };
        if (h < 0 || h >= (int) (sizeof n / sizeof n[0]))
                return "?";
        return n[h];
}

uint32_t
spec_c_bytes(const JobSpec &s)
{
        if (s.cipher == IMB_CIPHER_NULL)
                return 0;
        if (cipher_off_is_bits(s.cipher)) {
                // bytes touched starting from the byte that holds bit c_off
                uint64_t first = s.c_off / 8, last = ((uint64_t) s.c_off + s.c_len + 7) / 8;
                return (uint32_t) (last - first);
        }
        if (cipher_is_bits(s.cipher))
                return (s.c_len + 7) / 8;
        return s.c_len;
}
uint32_t
spec_h_bytes(const JobSpec &s)
{
        if (s.hash == IMB_AUTH_NULL)
                return 0;
        return hash_is_bits(s.hash) ? (s.h_len + 7) / 8 : s.h_len;
}
uint32_t
spec_src_bytes(const JobSpec &s)
{
        uint64_t ce = 0, he = 0;
        if (s.cipher != IMB_CIPHER_NULL) {
                if (cipher_off_is_bits(s.cipher))
                        ce = ((uint64_t) s.c_off + s.c_len + 7) / 8;
                else
                        ce = (uint64_t) s.c_off + spec_c_bytes(s);
        }
        if (s.hash != IMB_AUTH_NULL)
                he = (uint64_t) s.h_off + spec_h_bytes(s);
        uint64_t m = ce > he ? ce : he;
        return (uint32_t) m;
}

std::string
spec_str(const JobSpec &s)
{
        char b[512];
        snprintf(b, sizeof b,
                 "%s-%u/%s %s %s c[%u+%u] h[%u+%u] iv%u(k%u) aiv%u aad%u tag%u %s%s seed=%llx key=%llx",
                 cipher_name(s.cipher), s.key_len * 8, hash_name(s.hash), s.dir == IMB_DIR_ENCRYPT ? "enc" : "dec",
                 s.order == IMB_ORDER_CIPHER_HASH ? "C>H" : "H>C", s.c_off, s.c_len, s.h_off, s.h_len, s.iv_len,
                 s.iv_kind, s.aiv_len, s.aad_len, s.tag_len, s.inplace ? (s.minimal ? "inplace,minimal-ptrs" : "inplace") : (s.minimal ? "oop,minimal-ptrs" : "oop"),
                 s.viol ? (" VIOL=" + std::to_string(s.viol) + (s.viol2 ? "+" + std::to_string(s.viol2) : "")).c_str()
                        : "",
                 (unsigned long long) s.seed, (unsigned long long) s.key_seed);
        std::string r = b;
        bool anyp = false;
        for (int i = 0; i < O_NOBJ; i++)
                if (s.place[i])
                        anyp = true;
        if (anyp) {
                r += " place{";
                for (int i = 0; i < O_NOBJ; i++)
                        if (s.place[i]) {
                                r += obj_names[i];
                                r += s.place[i] == 1 ? ":end " : ":start ";
                        }
                r += "}";
        }
        if (!s.cuts.empty()) {
                r += " cuts[";
                for (auto c : s.cuts)
                        r += std::to_string(c) + ",";
                r += "]";
        }
        return r;
}

void
spec_to_json(JW &w, const JobSpec &s)
{
        w.obj();
        w.num("cipher", s.cipher).num("dir", s.dir).num("hash", s.hash).num("order", s.order);
        w.str("name", std::string(cipher_name(s.cipher)) + "/" + hash_name(s.hash));
        w.num("key_len", s.key_len).num("c_off", s.c_off).num("c_len", s.c_len);
        w.num("h_off", s.h_off).num("h_len", s.h_len).num("iv_len", s.iv_len).num("iv_kind", s.iv_kind);
        w.num("aiv_len", s.aiv_len).num("aad_len", s.aad_len).num("tag_len", s.tag_len);
        w.num("inplace", s.inplace).num("sgl_state", s.sgl_state).num("hkey_len", s.hkey_len);
        w.arr("place");
        for (int i = 0; i < O_NOBJ; i++)
                w.anum(s.place[i]);
        w.end_arr();
        w.num("mis0", s.mis[0]).num("mis1", s.mis[1]);
        w.unum("seed", s.seed).unum("key_seed", s.key_seed);
        w.num("viol", s.viol).num("viol2", s.viol2).num("pon_pli", s.pon_pli).num("minimal", s.minimal);
        if (s.scatter)
                w.num("scatter", s.scatter);
        if (!s.cuts.empty()) {
                w.arr("cuts");
                for (auto c : s.cuts)
                        w.anum(c);
                w.end_arr();
        }
        w.end_obj();
}

JobSpec
spec_from_json(const JVal &v)
{
        JobSpec s;
        s.cipher = (uint8_t) v.geti("cipher", IMB_CIPHER_NULL);
        s.dir = (uint8_t) v.geti("dir", 1);
        s.hash = (uint8_t) v.geti("hash", IMB_AUTH_NULL);
        s.order = (uint8_t) v.geti("order", 1);
        s.key_len = (uint16_t) v.geti("key_len");
        s.c_off = (uint32_t) v.geti("c_off");
        s.c_len = (uint32_t) v.geti("c_len");
        s.h_off = (uint32_t) v.geti("h_off");
        s.h_len = (uint32_t) v.geti("h_len");
        s.iv_len = (uint16_t) v.geti("iv_len");
        s.iv_kind = (uint8_t) v.geti("iv_kind");
        s.aiv_len = (uint16_t) v.geti("aiv_len");
        s.aad_len = (uint32_t) v.geti("aad_len");
        s.tag_len = (uint16_t) v.geti("tag_len");
        s.inplace = (uint8_t) v.geti("inplace", 1);
        s.sgl_state = (uint8_t) v.geti("sgl_state", IMB_SGL_ALL);
        s.hkey_len = (uint8_t) v.geti("hkey_len", 20);
        JP p = v.get("place");
        if (p)
                for (size_t i = 0; i < p->a.size() && i < O_NOBJ; i++)
                        s.place[i] = (uint8_t) p->a[i]->i;
        s.mis[0] = (uint8_t) v.geti("mis0");
        s.mis[1] = (uint8_t) v.geti("mis1");
        s.seed = v.getu("seed");
        s.key_seed = v.getu("key_seed");
        s.viol = (uint16_t) v.geti("viol");
        s.viol2 = (uint16_t) v.geti("viol2");
        s.pon_pli = (uint32_t) v.geti("pon_pli");
        s.minimal = (uint8_t) v.geti("minimal");
        s.scatter = (uint8_t) v.geti("scatter");
        JP c = v.get("cuts");
        if (c)
                for (auto &x : c->a)
                        s.cuts.push_back((uint32_t) x->i);
        return s;
}

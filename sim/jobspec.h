// JobSpec: a fully explicit, self-contained description of one work item.
// Everything a job needs (lengths, offsets, placements, seeds) is here; bytes
// are derived from seeds by fill_bytes(). DESIGN.md 2.2.
#pragma once
#include "util.h"
#include <intel-ipsec-mb.h>

enum ObjId {
        O_SRC = 0,
        O_DST,
        O_IV,
        O_AAD,
        O_TAG,
        O_KEYC,  // cipher key material (expanded / schedule / raw, per mode)
        O_KEYC2, // second cipher key object (dec schedule)
        O_KEYA,  // auth key material #1 (ipad / k1_expanded / key / gcm_key_data)
        O_KEYA2, // #2 (opad / k2 / skey1)
        O_KEYA3, // #3 (k3 / skey2)
        O_AIV,   // auth IV (GMAC iv, ZUC/SNOW3G auth iv, GHASH init tag)
        O_NIV,   // CBCS next_iv
        O_CTX,   // SGL context
        O_NOBJ
};
extern const char *const obj_names[O_NOBJ];

enum IvKind { IV_RANDOM = 0, IV_LOWBYTE_FF, IV_LOW32_NEAR, IV_LOW64_ONES, IV_ALL_ONES, IV_NKINDS };

struct JobSpec {
        uint8_t cipher = IMB_CIPHER_NULL;
        uint8_t dir = IMB_DIR_ENCRYPT;
        uint8_t hash = IMB_AUTH_NULL;
        uint8_t order = IMB_ORDER_CIPHER_HASH;
        uint16_t key_len = 0;
        uint32_t c_off = 0; // bytes, or bits for SNOW3G-UEA2 / KASUMI-UEA1
        uint32_t c_len = 0; // bytes, or bits for the three *_BITLEN modes
        uint32_t h_off = 0; // bytes
        uint32_t h_len = 0; // bytes, or bits for the *_BITLEN hashes
        uint16_t iv_len = 0;
        uint8_t iv_kind = IV_RANDOM;
        uint16_t aiv_len = 0;
        uint32_t aad_len = 0;
        uint16_t tag_len = 0;
        uint8_t inplace = 1;
        uint8_t sgl_state = IMB_SGL_ALL; // only for *_SGL ciphers
        uint8_t hkey_len = 20;           // raw HMAC key length fed to the ipad/opad helper
        uint8_t place[O_NOBJ] = { 0 };   // arena::PLACE_*
        uint8_t mis[2] = { 0, 0 };       // byte mis-alignment of src / dst (0..63), MID placement only
        uint64_t seed = 0;               // message / IV / AAD bytes
        uint64_t key_seed = 0;           // key bytes
        uint16_t viol = 0;               // invalid-job catalogue id (0 = valid job)
        uint16_t viol2 = 0;
        uint32_t pon_pli = 0;            // PON only
        uint8_t scatter = 0;             // SGL / multi-call: every segment is its own caller object (non-zero: placement seed)
        uint8_t minimal = 0;             // only the key pointers the direction requires are set (others NULL)
        // SGL ALL: segment cut points (offsets into the message), sorted
        std::vector<uint32_t> cuts;
};

bool cipher_is_bits(int cipher);        // c_len in bits
bool cipher_off_is_bits(int cipher);    // c_off in bits
bool hash_is_bits(int hash);
bool spec_bitpath(const struct JobSpec &s); // SNOW3G/KASUMI job takes the bit-granular path (offset applies to dst too)            // h_len in bits
const char *cipher_name(int c);
const char *hash_name(int h);
std::string spec_str(const JobSpec &s); // one-line human readable
void spec_to_json(JW &w, const JobSpec &s);
JobSpec spec_from_json(const JVal &v);
uint32_t spec_c_bytes(const JobSpec &s); // bytes covered by the cipher range (ceil)
uint32_t spec_h_bytes(const JobSpec &s);
uint32_t spec_src_bytes(const JobSpec &s); // size of the source buffer

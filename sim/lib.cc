#include "lib.h"
#include <dlfcn.h>
#include <stdio.h>
#include <stdlib.h>

const int k_variant_cfgs[7] = { 1, 2, 0, 5, 4, 9, 8 };

const char *
cfg_name(int cfg)
{
        static const char *n[NCFG] = { "sse",        "sse+shani_off",    "sse+gfni_off",    "sse+both_off",
                                       "avx2",       "avx2+shani_off",   "avx2+gfni_off",   "avx2+both_off",
                                       "avx512",     "avx512+shani_off", "avx512+gfni_off", "avx512+both_off" };
        return (cfg >= 0 && cfg < NCFG) ? n[cfg] : "?";
}

const char *
arch_type_name(const IMB_MGR *m)
{
        static char b[8][32];
        static int k = 0;
        static const char *a[] = { "none", "sse", "avx2", "avx512", "?", "?" };
        char *o = b[k++ & 7];
        snprintf(o, 32, "%s_t%u", m->used_arch < 6 ? a[m->used_arch] : "?", (unsigned) m->used_arch_type);
        return o;
}

LibImage g_img = { "static",
                   nullptr,
                   alloc_mb_mgr,
                   free_mb_mgr,
                   imb_get_mb_mgr_size,
                   imb_set_pointers_mb_mgr,
                   { init_mb_mgr_sse, init_mb_mgr_avx2, init_mb_mgr_avx512, nullptr },
                   init_mb_mgr_auto,
                   imb_get_errno,
                   imb_get_strerror,
                   imb_set_session,
                   imb_self_test_set_cb,
                   imb_get_feature_flags,
                   imb_hmac_ipad_opad,
                   des_key_schedule,
                   imb_sm4_gcm_pre };

bool
load_image(const char *path, LibImage &o)
{
        void *h = dlopen(path, RTLD_NOW | RTLD_LOCAL);
        if (!h) {
                fprintf(stderr, "dlopen %s: %s\n", path, dlerror());
                return false;
        }
        o.name = path;
        o.handle = h;
#define S(f) *(void **) (&o.f) = dlsym(h, #f)
        S(alloc_mb_mgr);
        S(free_mb_mgr);
        S(imb_get_mb_mgr_size);
        S(imb_set_pointers_mb_mgr);
        *(void **) (&o.init[0]) = dlsym(h, "init_mb_mgr_sse");
        *(void **) (&o.init[1]) = dlsym(h, "init_mb_mgr_avx2");
        *(void **) (&o.init[2]) = dlsym(h, "init_mb_mgr_avx512");
        *(void **) (&o.init_auto) = dlsym(h, "init_mb_mgr_auto");
        S(imb_get_errno);
        S(imb_get_strerror);
        S(imb_set_session);
        S(imb_self_test_set_cb);
        S(imb_get_feature_flags);
        S(imb_hmac_ipad_opad);
        S(des_key_schedule);
        S(imb_sm4_gcm_pre);
#undef S
        return o.alloc_mb_mgr && o.init[0] && o.imb_set_pointers_mb_mgr;
}

CallCtx g_callctx;
uint64_t g_calls_total = 0;
void (*g_cc_violation)(const char *, const char *) = nullptr;

Preempt g_pre;
Watch g_watch, g_last_residue;
#include <signal.h>
#include <ucontext.h>
static void
on_step(int, siginfo_t *, void *uc_)
{
        ucontext_t *uc = (ucontext_t *) uc_;
        if (g_watch.active) {
                const uint64_t rip = (uint64_t) uc->uc_mcontext.gregs[REG_RIP];
                if ((char *) rip == sim_call_after) {
                        g_watch.active = 0;
                        uc->uc_mcontext.gregs[REG_EFL] &= ~0x100ll;
                        return;
                }
                g_watch.steps++;
                const bool there = *(volatile uint64_t *) g_watch.addr == g_watch.val;
                if (there && !g_watch.hit_rip)
                        g_watch.hit_rip = g_watch.prev_rip ? g_watch.prev_rip : 1;
                if (!there)
                        g_watch.hit_rip = 0; // overwritten again: we want the write that survives
                g_watch.prev_rip = rip;
                return;
        }
        if (!g_pre.stepping) {
                uc->uc_mcontext.gregs[REG_EFL] &= ~0x100ll;
                return;
        }
        if ((char *) uc->uc_mcontext.gregs[REG_RIP] == sim_call_after) {
                // the call returned before the pre-emption point was reached
                g_pre.stepping = 0;
                uc->uc_mcontext.gregs[REG_EFL] &= ~0x100ll;
                return;
        }
        if (++g_pre.count < g_pre.n)
                return;
        g_pre.stepping = 0;
        g_pre.armed = 0;
        g_pre.fired = 1;
        uc->uc_mcontext.gregs[REG_EFL] &= ~0x100ll;
        // the "other thread" runs now; the trampoline's pre-call records belong to the interrupted call
        const uint64_t rsp_call = g_tramp_out.rsp_call, saved_rsp = g_tramp_saved_rsp;
        const uint32_t mxcsr_in = g_tramp_out.mxcsr_in;
        const char *name = g_callctx.name;
        g_pre.fn(g_pre.arg);
        g_tramp_out.rsp_call = rsp_call;
        g_tramp_saved_rsp = saved_rsp;
        g_tramp_out.mxcsr_in = mxcsr_in;
        g_callctx.name = name;
}

void
preempt_install()
{
        struct sigaction sa;
        memset(&sa, 0, sizeof sa);
        sa.sa_sigaction = on_step;
        sa.sa_flags = SA_SIGINFO | SA_ONSTACK;
        sigemptyset(&sa.sa_mask);
        sigaction(SIGTRAP, &sa, nullptr);
}

static bool
preemptible(const char *name)
{
        // calls that only read, or hand out a slot, are not worth a pre-emption point
        static const char *skip[] = { "get_next_job", "get_next_burst", "queue_size", "imb_get_errno", "imb_get_strerror", nullptr };
        for (int i = 0; skip[i]; i++)
                if (!strcmp(name, skip[i]))
                        return false;
        return true;
}

uint64_t
tcallv(const char *name, void *fn, int n, const uint64_t *v)
{
        sim_probe p;
        memset(&p, 0, sizeof p);
        p.fn = fn;
        int i = 0;
        for (; i < n && i < 6; i++)
                p.args[i] = v[i];
        if (n > 6 + 32) {
                fprintf(stderr, "tcallv: too many args\n");
                abort();
        }
        for (; i < n; i++)
                p.stack_args[p.nstack++] = v[i];
        uint64_t nonce = ++g_calls_total;
        uint64_t s = nonce * 0x9E3779B97F4A7C15ull ^ 0xC0FFEE1234567ull;
        for (int k = 0; k < 6; k++)
                p.canary[k] = splitmix64(s) | 0x0100000000000001ull;
        p.flags = g_callctx.scrub ? 3 : 0;
        g_callctx.name = name;
        if (g_watch.call_no && nonce == g_watch.call_no) {
                g_watch.active = 1;
                g_watch.hit_rip = g_watch.prev_rip = g_watch.steps = 0;
                p.flags |= 4;
        } else if (g_pre.armed && !g_pre.stepping && !g_pre.fired && preemptible(name)) {
                g_pre.count = 0;
                g_pre.stepping = 1;
                p.flags |= 4;
        }
        uint64_t r = sim_call(&p);
        if (p.flags & 4) {
                g_pre.stepping = 0;
                if (!g_pre.fired)
                        g_pre.armed = 0; // one attempt per request: the call was shorter than the requested point
        }
        const tramp_out &o = g_tramp_out;
        // calling convention invariant (C18)
        static const int idx[6] = { 1, 6, 12, 13, 14, 15 }; // rbx rbp r12..r15 in gpr[]
        static const char *rn[6] = { "rbx", "rbp", "r12", "r13", "r14", "r15" };
        char what[128];
        for (int k = 0; k < 6; k++)
                if (o.gpr[idx[k]] != p.canary[k]) {
                        snprintf(what, sizeof what, "%s not preserved", rn[k]);
                        if (g_cc_violation)
                                g_cc_violation(name, what);
                }
        if (o.gpr[7] != o.rsp_call) {
                snprintf(what, sizeof what, "rsp off by %lld", (long long) (o.gpr[7] - o.rsp_call));
                if (g_cc_violation)
                        g_cc_violation(name, what);
        }
        if (o.rflags & (1u << 10)) {
                if (g_cc_violation)
                        g_cc_violation(name, "direction flag set on return");
        }
        if (o.mxcsr_in != o.mxcsr_out) {
                snprintf(what, sizeof what, "MXCSR changed %08x -> %08x", o.mxcsr_in, o.mxcsr_out);
                if (g_cc_violation)
                        g_cc_violation(name, what);
        }
        return r;
}

bool
mgr_create(Mgr &g, int cfg, const LibImage *img)
{
        size_t sz = img->imb_get_mb_mgr_size();
        g.mem = arena::alloc((uint32_t) sz, arena::PLACE_MID, 64, 0);
        g.img = img;
        g.cfg = cfg;
        g.m = (IMB_MGR *) tc("imb_set_pointers_mb_mgr", img->imb_set_pointers_mb_mgr, g.mem.p, cfg_flags(cfg), 1u);
        if (!g.m)
                return false;
        mgr_init(g, cfg);
        return g.m->imb_errno == 0;
}

void
mgr_init(Mgr &g, int cfg)
{
        g.cfg = cfg;
        g.m->flags = cfg_flags(cfg);
        tc("init_mb_mgr", g.img->init[cfg_arch(cfg)], g.m);
}

void
mgr_destroy(Mgr &g)
{
        arena::release(g.mem);
        g.m = nullptr;
}

int mgr_errno(const Mgr &g) { return (int) tc("imb_get_errno", g.img->imb_get_errno, g.m); }

// ---------------------------------------------------------------- library image copies (C16)
#include <sys/mman.h>
#include <string>
#include <vector>
namespace {
struct Seg {
        uintptr_t lo, hi;
        int prot;
};
LibImage g_copy[2];
bool g_copy_loaded[2] = { false, false };
std::vector<Seg> g_copy_segs[2];

void
find_segs(const char *soname, std::vector<Seg> &out)
{
        FILE *f = fopen("/proc/self/maps", "r");
        if (!f)
                return;
        char line[1024];
        while (fgets(line, sizeof line, f)) {
                if (!strstr(line, soname))
                        continue;
                unsigned long lo, hi;
                char perms[8];
                if (sscanf(line, "%lx-%lx %7s", &lo, &hi, perms) != 3)
                        continue;
                Seg s;
                s.lo = lo;
                s.hi = hi;
                s.prot = (perms[0] == 'r' ? PROT_READ : 0) | (perms[1] == 'w' ? PROT_WRITE : 0) | (perms[2] == 'x' ? PROT_EXEC : 0);
                out.push_back(s);
        }
        fclose(f);
}
} // namespace

LibImage *
image_copy(int which)
{
        if (which < 0 || which > 1)
                return nullptr;
        if (!g_copy_loaded[which]) {
                const char *dir = getenv("IMB_LIBDIR_RESOLVED");
                if (!dir)
                        return nullptr;
                std::string path = std::string(dir) + (which == 0 ? "/libimb_A.so" : "/libimb_B.so");
                if (!load_image(path.c_str(), g_copy[which]))
                        return nullptr;
                g_copy[which].name = which == 0 ? "copy A" : "copy B";
                find_segs(which == 0 ? "libimb_A.so" : "libimb_B.so", g_copy_segs[which]);
                g_copy_loaded[which] = true;
        }
        return &g_copy[which];
}

bool
image_protect(LibImage *img, bool inaccessible)
{
        int which = img == &g_copy[0] ? 0 : img == &g_copy[1] ? 1 : -1;
        if (which < 0)
                return false;
        for (auto &s : g_copy_segs[which])
                if (mprotect((void *) s.lo, s.hi - s.lo, inaccessible ? PROT_NONE : s.prot) != 0)
                        return false;
        return !g_copy_segs[which].empty();
}

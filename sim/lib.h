// Binding to the library under test: variant configurations, trampolined
// calls (every call is checked for the calling convention, C18), manager
// creation in arena memory.
#pragma once
#include "util.h"
#include "tramp.h"
#include "arena.h"
#include <intel-ipsec-mb.h>
#include <type_traits>

// ---- variant configurations reachable through the public init functions
enum { ARCH_SSE = 0, ARCH_AVX2 = 1, ARCH_AVX512 = 2, ARCH_AUTO = 3 };
static const int NCFG = 12; // arch(3) x flags(4)
static inline int cfg_arch(int cfg) { return cfg / 4; }
static inline uint64_t cfg_flags(int cfg) { return (uint64_t) (cfg % 4); } // bit0 SHANI_OFF bit1 GFNI_OFF
const char *cfg_name(int cfg);
// the 7 distinct implementation variants: representative cfg for each
extern const int k_variant_cfgs[7];
const char *arch_type_name(const IMB_MGR *m);

// ---- library image (static link, or a dlopen'ed copy for C16 other-image mode)
struct LibImage {
        const char *name;
        void *handle;
        IMB_MGR *(*alloc_mb_mgr)(uint64_t);
        void (*free_mb_mgr)(IMB_MGR *);
        size_t (*imb_get_mb_mgr_size)(void);
        IMB_MGR *(*imb_set_pointers_mb_mgr)(void *, const uint64_t, const unsigned);
        void (*init[4])(IMB_MGR *); // sse, avx2, avx512, (auto is separate)
        void (*init_auto)(IMB_MGR *, IMB_ARCH *);
        int (*imb_get_errno)(IMB_MGR *);
        const char *(*imb_get_strerror)(int);
        uint32_t (*imb_set_session)(IMB_MGR *, IMB_JOB *);
        int (*imb_self_test_set_cb)(IMB_MGR *, imb_self_test_cb_t, void *);
        uint64_t (*imb_get_feature_flags)(void);
        void (*imb_hmac_ipad_opad)(IMB_MGR *, const IMB_HASH_ALG, const void *, const size_t, void *, void *);
        int (*des_key_schedule)(uint64_t *, const void *);
        void (*imb_sm4_gcm_pre)(IMB_MGR *, const void *, struct gcm_key_data *);
};
extern LibImage g_img;                 // the statically linked library
bool load_image(const char *path, LibImage &out); // dlopen copy
// two independent copies of the library (C16 other-image mode); nullptr if not available
LibImage *image_copy(int which);
// make every mapping of a copy inaccessible (the crashed process is gone) / accessible again
bool image_protect(LibImage *img, bool inaccessible);

// ---- trampolined calls
struct CallCtx {
        const char *name = "";
        uint64_t nonce = 0;
        bool scrub = false;      // C13: zero stack + vector regs before, dump stack after
};
extern CallCtx g_callctx;
extern uint64_t g_calls_total;
// called when a call violates the calling convention; set by the interpreter
extern void (*g_cc_violation)(const char *fn_name, const char *what);

uint64_t tcallv(const char *name, void *fn, int n, const uint64_t *v);

// ---- pre-emption inside a call (C17 L2): when armed, the next state-changing library call is single-stepped and
// after `n` instructions `fn` runs (another task's op, nested like a context switch); then the call resumes at full speed
struct Preempt {
        volatile int armed = 0;
        volatile int stepping = 0;
        volatile int fired = 0;
        uint64_t n = 0, count = 0;
        void (*fn)(void *) = nullptr;
        void *arg = nullptr;
};
extern Preempt g_pre;
void preempt_install();

// ---- debugging aid (imbsim blame): single-step library call number `call_no` and report the instruction after which
// the 8 bytes `val` first appear at `addr`
struct Watch {
        uint64_t call_no = 0;    // g_calls_total value of the call to step (0 = off)
        uint64_t addr = 0, val = 0;
        uint64_t hit_rip = 0, prev_rip = 0, steps = 0;
        int active = 0;
};
extern Watch g_watch;
// last stack residue seen by the C13 scanner (absolute address, value, call number)
extern Watch g_last_residue;

template <class T> static inline uint64_t to_u64(T x)
{
        if constexpr (std::is_pointer<T>::value)
                return (uint64_t) (uintptr_t) x;
        else if constexpr (std::is_enum<T>::value)
                return (uint64_t) (int64_t) (int) x;
        else if constexpr (std::is_same<T, std::nullptr_t>::value)
                return 0;
        else
                return (uint64_t) x;
}
template <class F, class... A> static inline uint64_t tc(const char *name, F fn, A... a)
{
        uint64_t v[sizeof...(A) + 1] = { to_u64(a)... };
        return tcallv(name, (void *) fn, (int) sizeof...(A), v);
}

// ---- managers
struct Mgr {
        IMB_MGR *m = nullptr;
        arena::Obj mem;
        int cfg = -1;
        const LibImage *img = &g_img;
};
// allocate manager memory in the arena and initialise it for cfg. Returns false on init error.
bool mgr_create(Mgr &g, int cfg, const LibImage *img = &g_img);
void mgr_init(Mgr &g, int cfg); // (re-)init in place via public init function of cfg's arch
void mgr_destroy(Mgr &g);
int mgr_errno(const Mgr &g); // imb_get_errno() as the user reads it

// convenience wrappers (all trampolined)
static inline IMB_JOB *L_get_next_job(IMB_MGR *m) { return (IMB_JOB *) tc("get_next_job", m->get_next_job, m); }
static inline IMB_JOB *L_submit_job(IMB_MGR *m) { return (IMB_JOB *) tc("submit_job", m->submit_job, m); }
static inline IMB_JOB *L_submit_job_nocheck(IMB_MGR *m) { return (IMB_JOB *) tc("submit_job_nocheck", m->submit_job_nocheck, m); }
static inline IMB_JOB *L_get_completed_job(IMB_MGR *m) { return (IMB_JOB *) tc("get_completed_job", m->get_completed_job, m); }
static inline IMB_JOB *L_flush_job(IMB_MGR *m) { return (IMB_JOB *) tc("flush_job", m->flush_job, m); }
static inline uint32_t L_queue_size(IMB_MGR *m) { return (uint32_t) tc("queue_size", m->queue_size, m); }
static inline uint32_t L_get_next_burst(IMB_MGR *m, uint32_t n, IMB_JOB **j) { return (uint32_t) tc("get_next_burst", m->get_next_burst, m, n, j); }
static inline uint32_t L_submit_burst(IMB_MGR *m, uint32_t n, IMB_JOB **j) { return (uint32_t) tc("submit_burst", m->submit_burst, m, n, j); }
static inline uint32_t L_submit_burst_nocheck(IMB_MGR *m, uint32_t n, IMB_JOB **j) { return (uint32_t) tc("submit_burst_nocheck", m->submit_burst_nocheck, m, n, j); }
static inline uint32_t L_flush_burst(IMB_MGR *m, uint32_t n, IMB_JOB **j) { return (uint32_t) tc("flush_burst", m->flush_burst, m, n, j); }

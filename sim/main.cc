// imbsim: deterministic simulation with fault injection for intel-ipsec-mb.
//   imbsim check <prop> [--tier quick|thorough] [--seed N] [--runs N] [--budget S] [--workers W]
//   imbsim replay <file> [-v]
//   imbsim one --profile P [--prop C] --seed S [-v]      (debug: a single run, prints the log)
//   imbsim determinism --profile P --runs N              (each seed twice, compare hashes)
#include "driver.h"
#include <unistd.h>
#include <sys/stat.h>
#include <stdlib.h>
#include <stdio.h>

CaseSource source_for(const std::string &profile, const std::string &prop, int tier);
int check_main(const std::string &prop, BatchCfg cfg); // registry.cc

static const char *
arg(int argc, char **argv, const char *name, const char *def)
{
        for (int i = 1; i + 1 < argc; i++)
                if (!strcmp(argv[i], name))
                        return argv[i + 1];
        return def;
}
static bool
flag(int argc, char **argv, const char *name)
{
        for (int i = 1; i < argc; i++)
                if (!strcmp(argv[i], name))
                        return true;
        return false;
}

// keep LeakSanitizer-style noise away if ever built with sanitizers
extern "C" __attribute__((used)) const char *
__asan_default_options()
{
        return "exitcode=77:detect_leaks=0";
}

int
main(int argc, char **argv)
{
        setvbuf(stdout, nullptr, _IOLBF, 0);
        if (argc < 2) {
                fprintf(stderr, "usage: imbsim check|replay|one|determinism ...\n");
                return 2;
        }
        std::string cmd = argv[1];
        char self[4096];
        ssize_t n = readlink("/proc/self/exe", self, sizeof self - 1);
        self[n > 0 ? n : 0] = 0;

        if (cmd == "replay") {
                if (argc < 3)
                        return 2;
                return replay_file(argv[2], flag(argc, argv, "-v"));
        }
        if (cmd == "blame") {
                // debugging aid: which instruction left a stack residue (C13)? Runs the replay's plan once to find the first
                // stack residue, then again single-stepping the call that left it.
                if (argc < 3)
                        return 2;
                std::string txt;
                if (!read_file(argv[2], txt))
                        return 2;
                Plan p;
                if (!plan_from_json(txt, p))
                        return 2;
                preempt_install();
                g_last_residue = Watch();
                g_watch = Watch();
                const uint64_t base = g_calls_total;
                (void) run_plan(p);
                if (!g_last_residue.addr) {
                        printf("no stack residue in this plan\n");
                        return 0;
                }
                Watch w = g_last_residue;
                const uint64_t rel = w.call_no - base;
                g_watch = Watch();
                g_watch.call_no = g_calls_total + rel;
                g_watch.addr = w.addr;
                g_watch.val = w.val;
                (void) run_plan(p);
                printf("residue %016llx at %#llx (call #%llu of the run): written by the instruction at %#llx (%llu instructions stepped)\n",
                       (unsigned long long) w.val, (unsigned long long) w.addr, (unsigned long long) rel,
                       (unsigned long long) g_watch.hit_rip, (unsigned long long) g_watch.steps);
                char cmdl[8192];
                snprintf(cmdl, sizeof cmdl, "addr2line -f -i -e %s %#llx", self, (unsigned long long) g_watch.hit_rip);
                return system(cmdl);
        }
        const char *env_seed = getenv("VERIF_SEED");
        uint64_t seed = strtoull(arg(argc, argv, "--seed", env_seed ? env_seed : "1"), nullptr, 0);
        const char *env_tier = getenv("VERIF_TIER");
        std::string tier = arg(argc, argv, "--tier", env_tier ? env_tier : "quick");

        if (cmd == "one") {
                std::string profile = arg(argc, argv, "--profile", "sched");
                std::string prop = arg(argc, argv, "--prop", "C05");
                CaseSource src = source_for(profile, prop, tier == "thorough");
                Plan p = src.make(seed, 0);
                p.seed = seed;
                if (flag(argc, argv, "--dump"))
                        printf("%s\n", plan_to_json(p).c_str());
                RunOpts o;
                o.want_log = flag(argc, argv, "-v");
                RunResult r = run_plan(p, o);
                if (src.post && !r.crashed)
                        src.post(p, r, r.viols);
                for (auto &l : r.log)
                        printf("%s\n", l.c_str());
                for (auto &v : r.viols)
                        printf("violation: property=%s oracle=%s op=%d key=%s\n   %s\n", v.prop.c_str(), v.oracle.c_str(),
                               v.op_index, v.key.c_str(), v.detail.c_str());
                printf("ops=%zu log_hash=%016llx calls=%llu completed=%llu states=%zu\n", p.ops.size(),
                       (unsigned long long) r.log_hash, (unsigned long long) r.ctr[CT_CALLS],
                       (unsigned long long) r.ctr[CT_JOBS_COMPLETED], r.states.size());
                return r.viols.empty() ? 0 : 1;
        }
        if (cmd == "determinism") {
                // each seed twice in this process; print "seed hash" lines so that runs in other
                // processes / with other worker counts can be diffed
                std::string profile = arg(argc, argv, "--profile", "sched");
                std::string prop = arg(argc, argv, "--prop", "C05");
                uint64_t runs = strtoull(arg(argc, argv, "--runs", "200"), nullptr, 0);
                uint64_t first = strtoull(arg(argc, argv, "--first", "0"), nullptr, 0);
                CaseSource src = source_for(profile, prop, tier == "thorough");
                int bad = 0;
                for (uint64_t i = first; i < first + runs; i++) {
                        uint64_t rs = mix64(seed, i + 1);
                        Plan p = src.make(rs, i);
                        RunResult a = run_plan(p), b = run_plan(p);
                        if (a.log_hash != b.log_hash) {
                                printf("NONDETERMINISTIC seed=%llu %016llx vs %016llx\n", (unsigned long long) rs,
                                       (unsigned long long) a.log_hash, (unsigned long long) b.log_hash);
                                bad++;
                        }
                        printf("%llu %016llx %zu\n", (unsigned long long) rs, (unsigned long long) a.log_hash, a.viols.size());
                }
                return bad ? 2 : 0;
        }
        if (cmd == "check") {
                if (argc < 3)
                        return 2;
                BatchCfg cfg;
                cfg.prop = argv[2];
                cfg.tier = tier;
                cfg.seed = seed;
                cfg.self_path = self;
                cfg.workers = atoi(arg(argc, argv, "--workers", "16"));
                cfg.runs = strtoull(arg(argc, argv, "--runs", "0"), nullptr, 0);
                cfg.budget_s = atof(arg(argc, argv, "--budget", "0"));
                if ((cfg.runs || cfg.budget_s > 0 || getenv("VERIF_ENUM")) && !getenv("VERIF_OUT")) {
                        // an ad-hoc run (explicit volume, or the enumeration aid): do not overwrite the registered evidence
                        const char *vd = getenv("VERIF_DIR");
                        std::string od = std::string(vd ? vd : "/verif") + "/.cache/adhoc";
                        mkdir((std::string(vd ? vd : "/verif") + "/.cache").c_str(), 0755);
                        mkdir(od.c_str(), 0755);
                        setenv("VERIF_OUT", od.c_str(), 1);
                        fprintf(stderr, "note: ad-hoc run, evidence and replays go to %s\n", od.c_str());
                }
                return check_main(cfg.prop, cfg);
        }
        fprintf(stderr, "unknown command %s\n", cmd.c_str());
        return 2;
}

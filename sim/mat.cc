#include "mat.h"
#include <stdio.h>
#include <algorithm>

uint32_t
aes_sched_bytes(unsigned key_len)
{
        return key_len == 16 ? 11 * 16 : key_len == 24 ? 13 * 16 : 15 * 16;
}
uint32_t
hmac_state_bytes(int h)
{
        switch (h) {
        case IMB_AUTH_HMAC_SHA_1: return 20;
        case IMB_AUTH_HMAC_SHA_224:
        case IMB_AUTH_HMAC_SHA_256: return 32;
        case IMB_AUTH_HMAC_SHA_384:
        case IMB_AUTH_HMAC_SHA_512: return 64;
        case IMB_AUTH_MD5: return 16;
        case IMB_AUTH_HMAC_SM3: return 32;
        }
        return 0;
}
uint32_t
hmac_block_bytes(int h)
{
        return (h == IMB_AUTH_HMAC_SHA_384 || h == IMB_AUTH_HMAC_SHA_512) ? 128 : 64;
}

uint64_t
JobOut::hash() const
{
        uint64_t h = fnv1a(&status, sizeof status);
        h = fnv1a(dst.data(), dst.size(), h);
        h = fnv1a(tag.data(), tag.size(), h ^ 0x11);
        h = fnv1a(src_post.data(), src_post.size(), h ^ 0x22);
        h = fnv1a(niv.data(), niv.size(), h ^ 0x33);
        return h;
}

std::string
out_diff(const JobOut &a, const JobOut &b)
{
        char t[256];
        if (a.status != b.status) {
                snprintf(t, sizeof t, "status %d vs %d", a.status, b.status);
                return t;
        }
        auto cmpv = [&](const char *n, const std::vector<uint8_t> &x, const std::vector<uint8_t> &y) -> std::string {
                if (x.size() != y.size()) {
                        snprintf(t, sizeof t, "%s size %zu vs %zu", n, x.size(), y.size());
                        return t;
                }
                for (size_t i = 0; i < x.size(); i++)
                        if (x[i] != y[i]) {
                                size_t nd = 0;
                                for (size_t j = i; j < x.size(); j++)
                                        nd += x[j] != y[j];
                                snprintf(t, sizeof t, "%s differs first at byte %zu of %zu (%02x vs %02x), %zu bytes differ",
                                         n, i, x.size(), x[i], y[i], nd);
                                return t;
                        }
                return "";
        };
        std::string r;
        if (!(r = cmpv("dst", a.dst, b.dst)).empty())
                return r;
        if (!(r = cmpv("tag", a.tag, b.tag)).empty())
                return r;
        if (!(r = cmpv("src_post", a.src_post, b.src_post)).empty())
                return r;
        if (!(r = cmpv("next_iv", a.niv, b.niv)).empty())
                return r;
        return "";
}

static arena::Obj
mk(MatJob &mj, int id, uint32_t len, uint32_t align = 1, uint32_t mis = 0)
{
        arena::Obj o = arena::alloc(len, mj.spec.place[id], align, mis);
        // objects start from a constant fill: bytes that the preparation code does not write (e.g. the unused round-key
        // slots of an AES-128 schedule inside gcm_key_data) must not carry whatever the arena slot held before -
        // the residue scanner would take such stale non-secret bytes for key material
        if (o.p && len)
                memset(o.p, 0xA5, len);
        mj.obj[id] = o;
        return o;
}

static void
snap(MatJob &mj, int id)
{
        const arena::Obj &o = mj.obj[id];
        mj.pre[id].assign(o.p, o.p + o.len);
}

static void
make_iv(uint8_t *iv, unsigned len, int kind, uint64_t seed)
{
        fill_bytes(iv, len, seed);
        if (len == 0)
                return;
        switch (kind) {
        case IV_LOWBYTE_FF: iv[len - 1] = 0xFF; break;
        case IV_LOW32_NEAR:
                if (len >= 4) {
                        iv[len - 4] = iv[len - 3] = iv[len - 2] = 0xFF;
                        iv[len - 1] = (uint8_t) (0xF0 | (seed & 0xF));
                }
                break;
        case IV_LOW64_ONES:
                for (unsigned i = 0; i < 8 && i < len; i++)
                        iv[len - 1 - i] = 0xFF;
                if (len >= 1)
                        iv[len - 1] = (uint8_t) (0xF8 | (seed & 7));
                break;
        case IV_ALL_ONES:
                memset(iv, 0xFF, len);
                iv[len - 1] = (uint8_t) (0xFC | (seed & 3));
                break;
        default: break;
        }
}

void
mat_raw_keys(uint64_t key_seed, uint8_t rawc[64], uint8_t rawa[160])
{
        // reserved seeds give structured keys (used by C19): 0x5EED0000 all zero, 0x5EED0001 all ones,
        // 0x5EED1000 + n: only bit n set (in both the cipher and the authentication key), 0x5EED2000.. keys with equal parts
        if ((key_seed >> 16) == 0x5EED) {
                const unsigned k = (unsigned) (key_seed & 0xFFFF);
                memset(rawc, k == 1 ? 0xFF : 0, 64);
                memset(rawa, k == 1 ? 0xFF : 0, 160);
                if (k >= 0x1000 && k < 0x2000) {
                        const unsigned n = (k - 0x1000) & 127;
                        rawc[n / 8] = (uint8_t) (1u << (n % 8));
                        rawa[n / 8] = (uint8_t) (1u << (n % 8));
                } else if (k >= 0x2000 && k < 0x5000) {
                        // keys with equal parts (what a key-dependent short cut would test for): 0x2000+v every 8-byte part
                        // equal (K1=K2=K3), 0x3000+v first two parts equal (K1=K2), 0x4000+v second and third equal (K2=K3)
                        uint8_t part[3][8];
                        fill_bytes(part[0], 8, mix64(key_seed, 0xE1));
                        fill_bytes(part[1], 8, mix64(key_seed, 0xE2));
                        fill_bytes(part[2], 8, mix64(key_seed, 0xE3));
                        const unsigned cls = k >> 12;
                        for (unsigned i = 0; i < 64; i++) {
                                const unsigned q = (i / 8) % 3;
                                const unsigned src = cls == 2 ? 0 : cls == 3 ? (q == 1 ? 0 : q) : (q == 2 ? 1 : q);
                                rawc[i] = part[src][i % 8];
                        }
                        for (unsigned i = 0; i < 160; i++)
                                rawa[i] = rawc[i % 24];
                }
                return;
        }
        fill_bytes(rawc, 64, mix64(key_seed, 0xC1));
        fill_bytes(rawa, 160, mix64(key_seed, 0xA1));
}

bool
materialize(MatJob &mj, const JobSpec &s, IMB_MGR *hm, const LibImage *img)
{
        mj.spec = s;
        mj.live = true;
        IMB_JOB &j = mj.tmpl;
        memset(&j, 0, sizeof j);
        const uint64_t ks = s.key_seed;
        uint8_t rawc[64], rawa[160];
        mat_raw_keys(ks, rawc, rawa);

        j.cipher_mode = (IMB_CIPHER_MODE) s.cipher;
        j.cipher_direction = (IMB_CIPHER_DIRECTION) s.dir;
        j.hash_alg = (IMB_HASH_ALG) s.hash;
        j.chain_order = (IMB_CHAIN_ORDER) s.order;
        j.key_len_in_bytes = s.key_len;
        j.sgl_state = (IMB_SGL_STATE) s.sgl_state;

        const bool sgl = (s.cipher == IMB_CIPHER_GCM_SGL || s.cipher == IMB_CIPHER_CHACHA20_POLY1305_SGL);

        // ---------------- source / destination buffers
        mj.src_len = spec_src_bytes(s);
        mj.out_len = spec_c_bytes(s);
        mk(mj, O_SRC, mj.src_len, 1, s.mis[0]);
        fill_bytes(mj.obj[O_SRC].p, mj.src_len, mix64(s.seed, 0x51));
        mj.src = mj.obj[O_SRC].p;
        if (s.cipher == IMB_CIPHER_PON_AES_CNTR && mj.src_len >= 8) {
                // XGEM header: PLI in the 14 most significant bits (big endian)
                uint8_t *h = mj.src + s.h_off;
                h[0] = (uint8_t) (s.pon_pli >> 6);
                h[1] = (uint8_t) ((s.pon_pli << 2) | (h[1] & 3));
        }
        const uint32_t c_off_bytes = cipher_off_is_bits(s.cipher) ? s.c_off / 8 : s.c_off;
        if (s.cipher != IMB_CIPHER_NULL) {
                // SNOW3G-UEA2 / KASUMI-UEA1 with a bit offset or bit length that is not a multiple of 8
                // take the "bit" path where the offset applies to src *and* dst; otherwise (header
                // rule) the offset applies to src only.
                const bool bp = spec_bitpath(s);
                if (s.inplace) {
                        mj.out = bp ? mj.src : mj.src + c_off_bytes;
                } else {
                        uint32_t dl = bp ? mj.src_len : mj.out_len;
                        mk(mj, O_DST, dl, 1, s.mis[1]);
                        fill_bytes(mj.obj[O_DST].p, dl, mix64(s.seed, 0xD5));
                        mj.out = mj.obj[O_DST].p;
                }
        }
        j.src = mj.src;
        j.dst = mj.out;
        j.cipher_start_src_offset_in_bytes = s.c_off;
        j.msg_len_to_cipher_in_bytes = s.c_len;
        j.hash_start_src_offset_in_bytes = s.h_off;
        j.msg_len_to_hash_in_bytes = s.h_len;

        // ---------------- IV
        if (s.iv_len || s.cipher == IMB_CIPHER_GCM || sgl) {
                mk(mj, O_IV, s.iv_len, 1);
                make_iv(mj.obj[O_IV].p, s.iv_len, s.iv_kind, mix64(s.seed, 0x17));
                j.iv = mj.obj[O_IV].p;
        }
        j.iv_len_in_bytes = s.iv_len;

        // ---------------- tag
        if (s.hash != IMB_AUTH_NULL) {
                mk(mj, O_TAG, s.tag_len, 1);
                fill_bytes(mj.obj[O_TAG].p, s.tag_len, mix64(s.seed, 0x7A));
                j.auth_tag_output = mj.obj[O_TAG].p;
                j.auth_tag_output_len_in_bytes = s.tag_len;
        }

        // ---------------- cipher keys
        switch (s.cipher) {
        case IMB_CIPHER_CBC:
        case IMB_CIPHER_CNTR:
        case IMB_CIPHER_CNTR_BITLEN:
        case IMB_CIPHER_ECB:
        case IMB_CIPHER_CFB:
        case IMB_CIPHER_CBCS_1_9:
        case IMB_CIPHER_DOCSIS_SEC_BPI:
        case IMB_CIPHER_CCM:
        case IMB_CIPHER_PON_AES_CNTR: {
                if (s.cipher == IMB_CIPHER_PON_AES_CNTR && s.key_len == 0)
                        break;
                uint32_t n = aes_sched_bytes(s.key_len);
                mk(mj, O_KEYC, n, 16);
                mk(mj, O_KEYC2, n, 16);
                void *fn = s.key_len == 16   ? (void *) hm->keyexp_128
                           : s.key_len == 24 ? (void *) hm->keyexp_192
                                             : (void *) hm->keyexp_256;
                tc("keyexp", fn, rawc, mj.obj[O_KEYC].p, mj.obj[O_KEYC2].p);
                j.enc_keys = mj.obj[O_KEYC].p;
                j.dec_keys = mj.obj[O_KEYC2].p;
                if (s.cipher == IMB_CIPHER_CNTR || s.cipher == IMB_CIPHER_CNTR_BITLEN ||
                    s.cipher == IMB_CIPHER_CCM || s.cipher == IMB_CIPHER_PON_AES_CNTR)
                        j.dec_keys = j.enc_keys;
                if (s.cipher == IMB_CIPHER_CFB)
                        j.dec_keys = j.enc_keys; // CFB decrypt uses the encrypt schedule
                break;
        }
        case IMB_CIPHER_GCM:
        case IMB_CIPHER_GCM_SGL:
        case IMB_CIPHER_SM4_GCM: {
                mk(mj, O_KEYC, sizeof(struct gcm_key_data), 64);
                memset(mj.obj[O_KEYC].p, 0, sizeof(struct gcm_key_data));
                if (s.cipher == IMB_CIPHER_SM4_GCM)
                        tc("imb_sm4_gcm_pre", img->imb_sm4_gcm_pre, hm, rawc, mj.obj[O_KEYC].p);
                else {
                        void *fn = s.key_len == 16   ? (void *) hm->gcm128_pre
                                   : s.key_len == 24 ? (void *) hm->gcm192_pre
                                                     : (void *) hm->gcm256_pre;
                        tc("gcm_pre", fn, rawc, mj.obj[O_KEYC].p);
                }
                j.enc_keys = j.dec_keys = mj.obj[O_KEYC].p;
                break;
        }
        case IMB_CIPHER_SM4_ECB:
        case IMB_CIPHER_SM4_CBC:
        case IMB_CIPHER_SM4_CNTR:
                mk(mj, O_KEYC, 128, 16);
                mk(mj, O_KEYC2, 128, 16);
                tc("sm4_keyexp", hm->sm4_keyexp, rawc, mj.obj[O_KEYC].p, mj.obj[O_KEYC2].p);
                j.enc_keys = mj.obj[O_KEYC].p;
                j.dec_keys = s.cipher == IMB_CIPHER_SM4_CNTR ? mj.obj[O_KEYC].p : mj.obj[O_KEYC2].p;
                break;
        case IMB_CIPHER_DES:
        case IMB_CIPHER_DOCSIS_DES:
                mk(mj, O_KEYC, IMB_DES_KEY_SCHED_SIZE, 16);
                tc("des_key_sched", hm->des_key_sched, mj.obj[O_KEYC].p, rawc);
                j.enc_keys = j.dec_keys = mj.obj[O_KEYC].p;
                break;
        case IMB_CIPHER_DES3: {
                mk(mj, O_KEYC, 3 * IMB_DES_KEY_SCHED_SIZE, 16);
                for (int i = 0; i < 3; i++)
                        tc("des_key_sched", hm->des_key_sched, mj.obj[O_KEYC].p + i * IMB_DES_KEY_SCHED_SIZE,
                           rawc + 8 * i);
                mj.extra[0] = arena::alloc(3 * sizeof(void *), s.place[O_KEYC2], 8);
                const void **pp = (const void **) mj.extra[0].p;
                for (int i = 0; i < 3; i++)
                        pp[i] = mj.obj[O_KEYC].p + i * IMB_DES_KEY_SCHED_SIZE;
                j.enc_keys = j.dec_keys = pp;
                break;
        }
        case IMB_CIPHER_ZUC_EEA3:
        case IMB_CIPHER_CHACHA20:
        case IMB_CIPHER_CHACHA20_POLY1305:
        case IMB_CIPHER_CHACHA20_POLY1305_SGL:
        case IMB_CIPHER_SNOW_V:
        case IMB_CIPHER_SNOW_V_AEAD:
                mk(mj, O_KEYC, s.key_len, 16);
                memcpy(mj.obj[O_KEYC].p, rawc, s.key_len);
                j.enc_keys = j.dec_keys = mj.obj[O_KEYC].p;
                break;
        case IMB_CIPHER_SNOW3G_UEA2_BITLEN: {
                uint32_t n = (uint32_t) tc("snow3g_key_sched_size", hm->snow3g_key_sched_size);
                mk(mj, O_KEYC, n, 16);
                tc("snow3g_init_key_sched", hm->snow3g_init_key_sched, rawc, mj.obj[O_KEYC].p);
                j.enc_keys = j.dec_keys = mj.obj[O_KEYC].p;
                break;
        }
        case IMB_CIPHER_KASUMI_UEA1_BITLEN: {
                uint32_t n = (uint32_t) tc("kasumi_key_sched_size", hm->kasumi_key_sched_size);
                mk(mj, O_KEYC, n, 16);
                tc("kasumi_init_f8_key_sched", hm->kasumi_init_f8_key_sched, rawc, mj.obj[O_KEYC].p);
                j.enc_keys = j.dec_keys = mj.obj[O_KEYC].p;
                break;
        }
        default: break;
        }
        if (s.minimal) {
                // only what the documentation requires for this direction
                const bool enc = s.dir == IMB_DIR_ENCRYPT;
                switch (s.cipher) {
                case IMB_CIPHER_CBC:
                case IMB_CIPHER_ECB:
                case IMB_CIPHER_CBCS_1_9:
                case IMB_CIPHER_CFB:
                case IMB_CIPHER_DES:
                case IMB_CIPHER_DOCSIS_DES:
                case IMB_CIPHER_DES3:
                case IMB_CIPHER_GCM:
                case IMB_CIPHER_GCM_SGL:
                case IMB_CIPHER_SM4_GCM:
                case IMB_CIPHER_SM4_ECB:
                case IMB_CIPHER_SM4_CBC:
                        if (enc)
                                j.dec_keys = nullptr;
                        else
                                j.enc_keys = nullptr;
                        break;
                case IMB_CIPHER_DOCSIS_SEC_BPI:
                        if (enc)
                                j.dec_keys = nullptr;
                        break;
                case IMB_CIPHER_NULL: break;
                default: j.dec_keys = nullptr; break;
                }
        }
        if (s.cipher == IMB_CIPHER_CBCS_1_9) {
                mk(mj, O_NIV, 16, 1);
                fill_bytes(mj.obj[O_NIV].p, 16, mix64(s.seed, 0x91));
                j.cipher_fields.CBCS.next_iv = mj.obj[O_NIV].p;
        }

        // ---------------- hash keys and hash-specific fields
        switch (s.hash) {
        case IMB_AUTH_HMAC_SHA_1:
        case IMB_AUTH_HMAC_SHA_224:
        case IMB_AUTH_HMAC_SHA_256:
        case IMB_AUTH_HMAC_SHA_384:
        case IMB_AUTH_HMAC_SHA_512:
        case IMB_AUTH_MD5:
        case IMB_AUTH_HMAC_SM3: {
                uint32_t n = hmac_state_bytes(s.hash);
                mk(mj, O_KEYA, n, 1);
                mk(mj, O_KEYA2, n, 1);
                tc("imb_hmac_ipad_opad", img->imb_hmac_ipad_opad, hm, (int) s.hash, rawa, (size_t) s.hkey_len,
                   mj.obj[O_KEYA].p, mj.obj[O_KEYA2].p);
                j.u.HMAC._hashed_auth_key_xor_ipad = mj.obj[O_KEYA].p;
                j.u.HMAC._hashed_auth_key_xor_opad = mj.obj[O_KEYA2].p;
                break;
        }
        case IMB_AUTH_AES_XCBC:
                mk(mj, O_KEYA, 11 * 16, 16);
                mk(mj, O_KEYA2, 16, 16);
                mk(mj, O_KEYA3, 16, 16);
                tc("xcbc_keyexp", hm->xcbc_keyexp, rawa, mj.obj[O_KEYA].p, mj.obj[O_KEYA2].p, mj.obj[O_KEYA3].p);
                j.u.XCBC._k1_expanded = (const uint32_t *) mj.obj[O_KEYA].p;
                j.u.XCBC._k2 = mj.obj[O_KEYA2].p;
                j.u.XCBC._k3 = mj.obj[O_KEYA3].p;
                break;
        case IMB_AUTH_AES_CMAC:
        case IMB_AUTH_AES_CMAC_BITLEN:
        case IMB_AUTH_AES_CMAC_256: {
                const bool k256 = s.hash == IMB_AUTH_AES_CMAC_256;
                uint8_t dust[15 * 16];
                mk(mj, O_KEYA, k256 ? 15 * 16 : 11 * 16, 16);
                mk(mj, O_KEYA2, 16, 16);
                mk(mj, O_KEYA3, 16, 16);
                tc("keyexp", k256 ? hm->keyexp_256 : hm->keyexp_128, rawa, mj.obj[O_KEYA].p, dust);
                tc("cmac_subkey_gen", k256 ? hm->cmac_subkey_gen_256 : hm->cmac_subkey_gen_128, mj.obj[O_KEYA].p,
                   mj.obj[O_KEYA2].p, mj.obj[O_KEYA3].p);
                j.u.CMAC._key_expanded = mj.obj[O_KEYA].p;
                j.u.CMAC._skey1 = mj.obj[O_KEYA2].p;
                j.u.CMAC._skey2 = mj.obj[O_KEYA3].p;
                break;
        }
        case IMB_AUTH_ZUC_EIA3_BITLEN:
        case IMB_AUTH_ZUC256_EIA3_BITLEN: {
                uint32_t kl = s.hash == IMB_AUTH_ZUC_EIA3_BITLEN ? 16 : 32;
                mk(mj, O_KEYA, kl, 1);
                memcpy(mj.obj[O_KEYA].p, rawa, kl);
                mk(mj, O_AIV, s.aiv_len, 1);
                fill_bytes(mj.obj[O_AIV].p, s.aiv_len, mix64(s.seed, 0xA7));
                if (s.hash == IMB_AUTH_ZUC256_EIA3_BITLEN) {
                        // bytes 17..24 of a 25-byte ZUC-256 IV carry 6-bit values
                        if (s.aiv_len == 25)
                                for (int i = 17; i < 25; i++)
                                        mj.obj[O_AIV].p[i] &= 0x3F;
                }
                j.u.ZUC_EIA3._key = mj.obj[O_KEYA].p;
                if (s.hash == IMB_AUTH_ZUC256_EIA3_BITLEN && s.aiv_len == 23) {
                        j.u.ZUC_EIA3._iv = nullptr;
                        j.u.ZUC_EIA3._iv23 = mj.obj[O_AIV].p;
                } else
                        j.u.ZUC_EIA3._iv = mj.obj[O_AIV].p;
                break;
        }
        case IMB_AUTH_SNOW3G_UIA2_BITLEN: {
                uint32_t n = (uint32_t) tc("snow3g_key_sched_size", hm->snow3g_key_sched_size);
                mk(mj, O_KEYA, n, 16);
                tc("snow3g_init_key_sched", hm->snow3g_init_key_sched, rawa, mj.obj[O_KEYA].p);
                mk(mj, O_AIV, 16, 1);
                fill_bytes(mj.obj[O_AIV].p, 16, mix64(s.seed, 0xA7));
                j.u.SNOW3G_UIA2._key = mj.obj[O_KEYA].p;
                j.u.SNOW3G_UIA2._iv = mj.obj[O_AIV].p;
                break;
        }
        case IMB_AUTH_KASUMI_UIA1: {
                uint32_t n = (uint32_t) tc("kasumi_key_sched_size", hm->kasumi_key_sched_size);
                mk(mj, O_KEYA, n, 16);
                tc("kasumi_init_f9_key_sched", hm->kasumi_init_f9_key_sched, rawa, mj.obj[O_KEYA].p);
                j.u.KASUMI_UIA1._key = mj.obj[O_KEYA].p;
                break;
        }
        case IMB_AUTH_AES_GMAC_128:
        case IMB_AUTH_AES_GMAC_192:
        case IMB_AUTH_AES_GMAC_256: {
                mk(mj, O_KEYA, sizeof(struct gcm_key_data), 64);
                memset(mj.obj[O_KEYA].p, 0, sizeof(struct gcm_key_data));
                void *fn = s.hash == IMB_AUTH_AES_GMAC_128   ? (void *) hm->gcm128_pre
                           : s.hash == IMB_AUTH_AES_GMAC_192 ? (void *) hm->gcm192_pre
                                                             : (void *) hm->gcm256_pre;
                tc("gcm_pre", fn, rawa, mj.obj[O_KEYA].p);
                mk(mj, O_AIV, s.aiv_len, 1);
                fill_bytes(mj.obj[O_AIV].p, s.aiv_len, mix64(s.seed, 0xA7));
                j.u.GMAC._key = (const struct gcm_key_data *) mj.obj[O_KEYA].p;
                j.u.GMAC._iv = mj.obj[O_AIV].p;
                j.u.GMAC.iv_len_in_bytes = s.aiv_len;
                break;
        }
        case IMB_AUTH_GHASH:
                mk(mj, O_KEYA, sizeof(struct gcm_key_data), 64);
                memset(mj.obj[O_KEYA].p, 0, sizeof(struct gcm_key_data));
                tc("ghash_pre", hm->ghash_pre, rawa, mj.obj[O_KEYA].p);
                mk(mj, O_AIV, 16, 1);
                fill_bytes(mj.obj[O_AIV].p, 16, mix64(s.seed, 0xA7));
                j.u.GHASH._key = (const struct gcm_key_data *) mj.obj[O_KEYA].p;
                j.u.GHASH._init_tag = mj.obj[O_AIV].p;
                break;
        case IMB_AUTH_POLY1305:
                mk(mj, O_KEYA, 32, 1);
                memcpy(mj.obj[O_KEYA].p, rawa, 32);
                j.u.POLY1305._key = mj.obj[O_KEYA].p;
                break;
        case IMB_AUTH_AES_GMAC:
        case IMB_AUTH_GCM_SGL:
        case IMB_AUTH_SM4_GCM:
        case IMB_AUTH_AES_CCM:
        case IMB_AUTH_CHACHA20_POLY1305:
        case IMB_AUTH_CHACHA20_POLY1305_SGL:
        case IMB_AUTH_SNOW_V_AEAD:
                // the AAD pointer / length pair sits at the same place in all AEAD unions
                mk(mj, O_AAD, s.aad_len, 1);
                fill_bytes(mj.obj[O_AAD].p, s.aad_len, mix64(s.seed, 0xAD));
                j.u.GCM.aad = mj.obj[O_AAD].p;
                j.u.GCM.aad_len_in_bytes = s.aad_len;
                break;
        default: break;
        }

        // ---------------- SGL
        if (sgl) {
                uint32_t csz = s.cipher == IMB_CIPHER_GCM_SGL ? (uint32_t) sizeof(struct gcm_context_data)
                                                              : (uint32_t) sizeof(struct chacha20_poly1305_context_data);
                mk(mj, O_CTX, csz, 16);
                memset(mj.obj[O_CTX].p, 0, csz);
                j.u.GCM.ctx = (struct gcm_context_data *) mj.obj[O_CTX].p; // same offset in CHACHA20_POLY1305 union
                if (s.sgl_state == IMB_SGL_ALL) {
                        // segment list over [c_off, c_off+c_len)
                        std::vector<uint32_t> cuts = s.cuts;
                        cuts.insert(cuts.begin(), 0);
                        cuts.push_back(s.c_len);
                        uint32_t nseg = (uint32_t) cuts.size() - 1;
                        mj.extra[1] = arena::alloc(nseg * sizeof(struct IMB_SGL_IOV), s.place[O_CTX], 8);
                        struct IMB_SGL_IOV *iov = (struct IMB_SGL_IOV *) mj.extra[1].p;
                        if (s.scatter)
                                segs_alloc(mj.segs, mj.src + s.c_off, cuts, mix64(s.seed, 0x5CA7 + s.scatter), s.inplace);
                        for (uint32_t i = 0; i < nseg; i++) {
                                iov[i].in = mj.segs.active() ? mj.segs.src(i, mj.src + s.c_off + cuts[i]) : mj.src + s.c_off + cuts[i];
                                iov[i].out = mj.segs.active() ? mj.segs.dst(i, mj.out + cuts[i]) : mj.out + cuts[i];
                                iov[i].len = cuts[i + 1] - cuts[i];
                        }
                        j.sgl_io_segs = iov;
                        j.num_sgl_io_segs = nseg;
                }
        }

        for (int i = 0; i < O_NOBJ; i++)
                if (mj.obj[i].valid())
                        snap(mj, i);
        return true;
}

void
mat_release(MatJob &mj)
{
        for (int i = 0; i < O_NOBJ; i++)
                arena::release(mj.obj[i]);
        for (auto &e : mj.extra)
                arena::release(e);
        segs_release(mj.segs);
        mj.live = false;
}

void
segs_alloc(SegBufs &sb, const uint8_t *src, const std::vector<uint32_t> &cuts, uint64_t seed, bool inplace)
{
        sb.cuts = cuts;
        sb.inplace = inplace;
        const size_t n = cuts.size() ? cuts.size() - 1 : 0;
        sb.in.assign(n, arena::Obj());
        sb.out.assign(n, arena::Obj());
        for (size_t i = 0; i < n; i++) {
                const uint32_t len = cuts[i + 1] - cuts[i];
                if (!len)
                        continue;
                const uint64_t h = mix64(seed, i);
                const int pl_in = (h % 100) < 45 ? arena::PLACE_START : (h % 100) < 85 ? arena::PLACE_END : arena::PLACE_MID;
                const int pl_out = ((h >> 8) % 100) < 45 ? arena::PLACE_START : ((h >> 8) % 100) < 85 ? arena::PLACE_END : arena::PLACE_MID;
                sb.in[i] = arena::alloc(len, pl_in, 1, pl_in == arena::PLACE_MID ? (uint32_t) ((h >> 16) & 63) : 0);
                memcpy(sb.in[i].p, src + cuts[i], len);
                if (!inplace) {
                        sb.out[i] = arena::alloc(len, pl_out, 1, pl_out == arena::PLACE_MID ? (uint32_t) ((h >> 24) & 63) : 0);
                        memset(sb.out[i].p, 0xD5, len);
                }
        }
}

void
segs_gather(const SegBufs &sb, uint8_t *out)
{
        for (size_t i = 0; i < sb.in.size(); i++) {
                const uint32_t len = sb.cuts[i + 1] - sb.cuts[i];
                if (!len)
                        continue;
                const arena::Obj &o = sb.inplace ? sb.in[i] : sb.out[i];
                if (o.valid())
                        memcpy(out + sb.cuts[i], o.p, len);
        }
}

std::string
segs_check(const SegBufs &sb, const uint8_t *src_pre)
{
        char t[160];
        uint64_t where = 0;
        for (size_t i = 0; i < sb.in.size(); i++) {
                if (sb.in[i].valid() && arena::canary_broken(sb.in[i], &where)) {
                        snprintf(t, sizeof t, "write outside source segment %zu (len %u) at offset %ld", i, sb.in[i].len,
                                 (long) ((uintptr_t) where - (uintptr_t) sb.in[i].p));
                        return t;
                }
                if (sb.out[i].valid() && arena::canary_broken(sb.out[i], &where)) {
                        snprintf(t, sizeof t, "write outside destination segment %zu (len %u) at offset %ld", i, sb.out[i].len,
                                 (long) ((uintptr_t) where - (uintptr_t) sb.out[i].p));
                        return t;
                }
                if (!sb.inplace && sb.in[i].valid() && src_pre && memcmp(sb.in[i].p, src_pre + sb.cuts[i], sb.in[i].len) != 0) {
                        snprintf(t, sizeof t, "source segment %zu modified by an out-of-place operation", i);
                        return t;
                }
        }
        return "";
}

void
segs_release(SegBufs &sb)
{
        for (auto &o : sb.in)
                arena::release(o);
        for (auto &o : sb.out)
                arena::release(o);
        sb.in.clear();
        sb.out.clear();
        sb.cuts.clear();
}

void
mat_collect(const MatJob &mj, int status, JobOut &o)
{
        o.status = status;
        o.dst.clear();
        o.tag.clear();
        o.niv.clear();
        if (mj.segs.active() && mj.out)
                segs_gather(mj.segs, mj.out); // scattered segments: assemble the output where a contiguous job would put it
        if (mj.out && mj.spec.cipher != IMB_CIPHER_NULL) {
                if (mj.spec.inplace || !mj.obj[O_DST].valid())
                        o.dst.assign(mj.out, mj.out + (spec_bitpath(mj.spec) ? mj.src_len : mj.out_len));
                else
                        o.dst.assign(mj.obj[O_DST].p, mj.obj[O_DST].p + mj.obj[O_DST].len);
        }
        if (mj.obj[O_TAG].valid())
                o.tag.assign(mj.obj[O_TAG].p, mj.obj[O_TAG].p + mj.obj[O_TAG].len);
        // PON: the second tag word is the Ethernet CRC, which exists only when PLI > 4 (header comment,
        // kat-app checks it only then). For PLI <= 4 those 4 bytes are unspecified: not compared.
        if (mj.spec.cipher == IMB_CIPHER_PON_AES_CNTR && mj.spec.pon_pli <= 4 && o.tag.size() == 8)
                memset(o.tag.data() + 4, 0, 4);
        o.src_post.assign(mj.src, mj.src + mj.src_len);
        // DOCSIS CRC32: frames shorter than the minimum Ethernet PDU (IMB_DOCSIS_CRC32_MIN_ETH_PDU_SIZE = 14
        // bytes before the FCS) are outside the documented assumptions; the repo's own cross-validation
        // does not check their CRC either. The CRC value (tag and the copy written into the frame) is
        // therefore not compared for them; everything else about such jobs still is.
        if (mj.spec.hash == IMB_AUTH_DOCSIS_CRC32 && mj.spec.h_len == 0 && mj.spec.c_len) {
                // CRC switched off (hash length zero): no CRC value is defined, the ciphered range is compared as usual
                std::fill(o.tag.begin(), o.tag.end(), 0);
        } else if (mj.spec.hash == IMB_AUTH_DOCSIS_CRC32 && mj.spec.h_len < 14) {
                std::fill(o.tag.begin(), o.tag.end(), 0);
                for (uint32_t i = mj.spec.h_off + mj.spec.h_len; i < mj.spec.h_off + mj.spec.h_len + 4 && i < o.src_post.size(); i++)
                        o.src_post[i] = 0;
                if (mj.spec.inplace && !o.dst.empty())
                        std::fill(o.dst.begin(), o.dst.end(), 0);
        }
        if (mj.obj[O_NIV].valid())
                o.niv.assign(mj.obj[O_NIV].p, mj.obj[O_NIV].p + 16);
}

// which byte range of the source buffer may legitimately change
static void
src_writable(const MatJob &mj, uint32_t &lo, uint32_t &hi)
{
        const JobSpec &s = mj.spec;
        lo = hi = 0;
        if (s.cipher != IMB_CIPHER_NULL && s.inplace) {
                if (cipher_off_is_bits(s.cipher)) {
                        lo = s.c_off / 8;
                        hi = (uint32_t) (((uint64_t) s.c_off + s.c_len + 7) / 8);
                } else {
                        lo = s.c_off;
                        hi = s.c_off + mj.out_len;
                }
        }
        if (s.hash == IMB_AUTH_DOCSIS_CRC32 && s.dir == IMB_DIR_ENCRYPT && s.h_len) {
                // CRC32 inserted right after the hashed range
                uint32_t a = s.h_off + s.h_len, b = a + 4;
                if (lo == hi) {
                        lo = a;
                        hi = b;
                } else {
                        lo = lo < a ? lo : a;
                        hi = hi > b ? hi : b;
                }
        }
        if (s.cipher == IMB_CIPHER_PON_AES_CNTR) {
                // in-place only: HEC in the XGEM header and the CRC inside the payload may be rewritten
                // (encrypt), the payload is ciphered: the whole frame [h_off, h_off+h_len) is writable
                lo = s.h_off;
                hi = s.h_off + s.h_len;
        }
}

std::string
mat_check_memory(const MatJob &mj, bool completed)
{
        char t[256];
        const JobSpec &s = mj.spec;
        uint64_t where = 0;
        for (int i = 0; i < O_NOBJ; i++) {
                if (!mj.obj[i].valid())
                        continue;
                if (arena::canary_broken(mj.obj[i], &where)) {
                        long d = (long) ((uintptr_t) where - (uintptr_t) mj.obj[i].p);
                        snprintf(t, sizeof t, "write outside object %s (len %u) at offset %ld", obj_names[i],
                                 mj.obj[i].len, d);
                        return t;
                }
        }
        for (auto &e : mj.extra)
                if (e.valid() && arena::canary_broken(e, &where))
                        return "write outside auxiliary object";
        if (mj.segs.active()) {
                std::string e = segs_check(mj.segs, mj.pre[O_SRC].empty() ? nullptr : mj.pre[O_SRC].data() + s.c_off);
                if (!e.empty())
                        return e;
        }
        // read-only objects must be byte-identical to their pre-image
        static const int ro[] = { O_IV, O_AAD, O_KEYC, O_KEYC2, O_KEYA, O_KEYA2, O_KEYA3, O_AIV };
        for (int id : ro) {
                if (!mj.obj[id].valid())
                        continue;
                if (memcmp(mj.obj[id].p, mj.pre[id].data(), mj.obj[id].len) != 0) {
                        snprintf(t, sizeof t, "input object %s was modified", obj_names[id]);
                        return t;
                }
        }
        // source buffer: only the documented range may change
        uint32_t lo, hi;
        src_writable(mj, lo, hi);
        if (!completed)
                lo = hi = 0; // a rejected job must leave everything untouched
        for (uint32_t i = 0; i < mj.src_len; i++) {
                if (i >= lo && i < hi)
                        continue;
                if (mj.src[i] != mj.pre[O_SRC][i]) {
                        snprintf(t, sizeof t, "source byte %u of %u modified (writable range [%u,%u))", i, mj.src_len,
                                 lo, hi);
                        return t;
                }
        }
        if (!completed) {
                static const int rw[] = { O_DST, O_TAG, O_NIV, O_CTX };
                for (int id : rw)
                        if (mj.obj[id].valid() && memcmp(mj.obj[id].p, mj.pre[id].data(), mj.obj[id].len) != 0) {
                                snprintf(t, sizeof t, "rejected job: object %s was modified", obj_names[id]);
                                return t;
                        }
        }
        // out-of-place bit-offset modes: bytes of dst outside the ciphered byte range must be untouched
        if (completed && !s.inplace && spec_bitpath(s) && mj.obj[O_DST].valid()) {
                uint32_t a = s.c_off / 8, b = (uint32_t) (((uint64_t) s.c_off + s.c_len + 7) / 8);
                for (uint32_t i = 0; i < mj.obj[O_DST].len; i++)
                        if ((i < a || i >= b) && mj.obj[O_DST].p[i] != mj.pre[O_DST][i]) {
                                snprintf(t, sizeof t, "dst byte %u outside ciphered bytes [%u,%u) modified", i, a, b);
                                return t;
                        }
        }
        return "";
}

// Materialisation of a JobSpec: allocate every caller object in the arena,
// fill it from seeds, prepare key material, fill an IMB_JOB template; and
// collection of the job's observable results afterwards.
#pragma once
#include "jobspec.h"
#include "lib.h"

// message segments as separate caller objects (C07/C10: a segment's neighbours in memory are guard pages or
// canaries, not the adjacent segment)
struct SegBufs {
        std::vector<arena::Obj> in, out; // out[i] is invalid when the segment is processed in place
        std::vector<uint32_t> cuts;      // 0 = cuts[0] <= ... <= cuts[n] = total
        bool inplace = false;
        bool active() const { return !in.empty(); }
        uint8_t *src(size_t i, uint8_t *fallback) const { return in[i].valid() ? in[i].p : fallback; }
        uint8_t *dst(size_t i, uint8_t *fallback) const { return inplace ? src(i, fallback) : out[i].valid() ? out[i].p : fallback; }
};
void segs_alloc(SegBufs &sb, const uint8_t *src, const std::vector<uint32_t> &cuts, uint64_t seed, bool inplace);
void segs_gather(const SegBufs &sb, uint8_t *out);
std::string segs_check(const SegBufs &sb, const uint8_t *src_pre);
void segs_release(SegBufs &sb);

struct MatJob {
        JobSpec spec;
        SegBufs segs;           // SGL with spec.scatter: one object per segment
        arena::Obj obj[O_NOBJ];
        arena::Obj extra[3];    // DES3 key pointer array, SGL segment array, spare
        std::vector<uint8_t> pre[O_NOBJ]; // pre-images
        IMB_JOB tmpl;           // descriptor as the caller fills it
        uint8_t *src = nullptr; // == tmpl.src for non-SGL
        uint8_t *out = nullptr; // where the cipher output lands (tmpl.dst)
        uint32_t src_len = 0;   // bytes of the source buffer object
        uint32_t out_len = 0;   // bytes of cipher output (ceil for bit modes)
        bool live = false;
};

struct JobOut {
        int status = 0;
        std::vector<uint8_t> dst;      // out_len bytes at the output position
        std::vector<uint8_t> tag;      // tag_len bytes
        std::vector<uint8_t> src_post; // whole source buffer afterwards
        std::vector<uint8_t> niv;      // CBCS next_iv
        bool operator==(const JobOut &o) const
        {
                return status == o.status && dst == o.dst && tag == o.tag && src_post == o.src_post && niv == o.niv;
        }
        uint64_t hash() const;
};

// helper manager: any initialised manager whose helper functions are used for key preparation
bool materialize(MatJob &mj, const JobSpec &s, IMB_MGR *helper, const LibImage *img = &g_img);
void mat_release(MatJob &mj);
void mat_collect(const MatJob &mj, int status, JobOut &out);
std::string out_diff(const JobOut &a, const JobOut &b);

// C07 checks after the job came back. Returns empty string when fine.
std::string mat_check_memory(const MatJob &mj, bool completed);

// object sizes
uint32_t aes_sched_bytes(unsigned key_len);
uint32_t hmac_state_bytes(int hash);
uint32_t hmac_block_bytes(int hash);

#include "plangen.h"

int
pick_violation(Rng &r, const JobSpec &s)
{
        int cand[64], n = 0;
        for (int v = 1; v < viol_count(); v++)
                if (viol_applies(v, s))
                        cand[n++] = v;
        return n ? cand[r.below((uint32_t) n)] : 0;
}

static Suite
parker_suite()
{
        Suite s;
        s.cipher = IMB_CIPHER_CBC;
        s.key_len = 16;
        s.dir = IMB_DIR_ENCRYPT;
        return s;
}
static Suite
immediate_suite(Rng &r)
{
        Suite s;
        if (r.chance(0.5)) {
                s.hash = IMB_AUTH_CRC32_ETHERNET_FCS;
                s.order = IMB_ORDER_HASH_CIPHER;
        } else {
                s.cipher = IMB_CIPHER_CNTR;
                s.key_len = 16;
        }
        return s;
}

ProfileCfg
profile_by_name(const std::string &name, const std::string &prop, int tier)
{
        ProfileCfg p;
        p.name = name;
        p.prop = prop;
        const bool th = tier > 0;
        if (name == "sched") { // C05: scheduler model, all call kinds, invalid jobs, misuse, queue-full
                p.oracles = OR_FIFO | OR_DESC | OR_REJECT;
                p.allow_invalid = p.allow_misuse = true;
                p.max_ops = th ? 2000 : 400;
                p.max_len = 512;
        } else if (name == "desc") { // C14: descriptor + errno after every call, failing/succeeding calls alternate
                p.oracles = OR_FIFO | OR_DESC | OR_REJECT;
                p.allow_invalid = p.allow_misuse = true;
                p.max_ops = 200;
                p.max_len = 1024;
        } else if (name == "solo") { // C04
                p.oracles = OR_FIFO | OR_SOLO | OR_MEM;
                p.max_ops = th ? 600 : 250;
                p.max_len = 2048;
        } else if (name == "cc") { // C18
                p.oracles = OR_FIFO;
                p.allow_invalid = true;
                p.max_ops = 200;
        } else if (name == "guard") { // C07
                p.oracles = OR_MEM | OR_FIFO;
                p.guard = true;
                p.max_ops = 60;
                p.max_len = 1100;
        } else if (name == "reinit") { // C15
                p.oracles = OR_FIFO | OR_DESC | OR_SOLO;
                p.allow_reinit = true;
                p.max_ops = 120;
                p.max_len = 1024;
        } else if (name == "reattach") { // C16
                p.oracles = OR_FIFO | OR_DESC | OR_SOLO | OR_MEM;
                p.allow_reattach = true;
                p.max_ops = 120;
                p.max_len = 1024;
        } else if (name == "reject") { // C12
                p.oracles = OR_FIFO | OR_DESC | OR_REJECT | OR_MEM | OR_SOLO;
                p.allow_invalid = p.allow_misuse = true;
                p.guard = true;
                p.max_ops = 80;
                p.max_len = 600;
        } else if (name == "xvar") { // C08 W1
                p.oracles = OR_FIFO | OR_XVAR;
                p.max_ops = 40;
                p.max_len = 1024;
                p.allow_full = false;
        } else if (name == "ref_cipher") {
                p.oracles = OR_FIFO | OR_REF;
                p.suite_kind = 0;
                p.max_ops = 80;
        } else if (name == "ref_hash") {
                p.oracles = OR_FIFO | OR_REF;
                p.suite_kind = 1;
                p.max_ops = 80;
        } else if (name == "ref_aead") {
                p.oracles = OR_FIFO | OR_REF;
                p.suite_kind = 3;
                p.max_ops = 80;
        } else if (name == "ref_chain") {
                p.oracles = OR_FIFO | OR_REF;
                p.suite_kind = 2;
                p.max_ops = 60;
        } else if (name == "docsis_big") { // exploration aid: DOCSIS+CRC32 near the 64 KiB limit, co-scheduled
                p.oracles = OR_FIFO | OR_REF | OR_SOLO;
                p.max_ops = 12;
                p.max_len = 65534;
                p.allow_full = false;
                for (int k : { 16, 32 })
                        for (int d = 1; d <= 2; d++) {
                                Suite su;
                                su.cipher = IMB_CIPHER_DOCSIS_SEC_BPI;
                                su.key_len = (uint16_t) k;
                                su.dir = (uint8_t) d;
                                su.hash = IMB_AUTH_DOCSIS_CRC32;
                                su.order = d == 1 ? IMB_ORDER_HASH_CIPHER : IMB_ORDER_CIPHER_HASH;
                                p.fixed_suites.push_back(su);
                        }
        } else if (name == "indep") { // C17 L1
                p.oracles = OR_FIFO | OR_DESC;
                p.ntasks = 3;
                p.allow_invalid = true;
                p.max_ops = 150;
                p.max_len = 600;
        }
        return p;
}

Plan
gen_plan(const ProfileCfg &pc, uint64_t run_seed)
{
        Rng r(run_seed);
        Plan p;
        p.seed = run_seed;
        p.profile = pc.name;
        p.prop = pc.prop;
        p.oracles = pc.oracles;
        int nt = pc.ntasks > 1 ? (int) r.range(2, (uint32_t) pc.ntasks) : 1;
        for (int i = 0; i < nt; i++)
                p.task_cfg.push_back(pc.force_cfg >= 0 ? pc.force_cfg : (int) r.below(NCFG));
        p.warmup = r.chance(0.5) ? 0 : r.below(256);

        // ---- swarm configuration
        std::vector<Suite> suites;
        uint32_t ns = r.range(1, 6);
        for (uint32_t i = 0; i < ns; i++) {
                if (!pc.fixed_suites.empty())
                        suites.push_back(r.pick(pc.fixed_suites));
                else
                        suites.push_back(gen_suite(r, pc.suite_kind));
        }
        static const double flushiness[] = { 0.02, 0.05, 0.1, 0.2, 0.4, 0.6 };
        const double p_flush = flushiness[r.below(6)];
        const double p_getc = r.chance(0.5) ? 0.05 : 0.3;
        const double p_qs = 0.05;
        const double p_getnext = 0.02;
        const double p_invalid = pc.allow_invalid && r.chance(0.6) ? (r.chance(0.5) ? 0.05 : 0.25) : 0.0;
        const double p_misuse = pc.allow_misuse && r.chance(0.4) ? 0.04 : 0.0;
        const double p_nocheck = r.chance(0.5) ? 0.0 : 0.5;
        const int api_mode = !pc.allow_burst ? 0 : (int) r.below(3); // 0 job, 1 burst, 2 alternate
        const double p_reinit = pc.allow_reinit ? 0.03 : 0.0;
        const double p_reattach = pc.allow_reattach ? 0.04 : 0.0;
        GenOpts go;
        go.len_profile = (int) r.below(LEN_NPROF);
        go.max_len = (pc.big_lens && r.chance(0.15)) ? 65534 : pc.max_len;
        if (go.max_len <= 4096 && (go.len_profile == LEN_4K || go.len_profile == LEN_MAX))
                go.len_profile = LEN_MIXED;
        go.guard = pc.guard;
        go.oop = true;
        uint32_t x = r.below(10);
        uint32_t nops = x < 5 ? r.range(5, 40) : x < 9 ? r.range(20, pc.max_ops / 2 + 20) : r.range(pc.max_ops / 2, pc.max_ops);
        if (go.max_len > 8192 && nops > 60)
                nops = 60; // long messages: keep the run short

        auto mkjob = [&](bool allow_inv) {
                JobSpec j = gen_job(r, r.pick(suites), go);
                if (allow_inv && p_invalid > 0 && r.chance(p_invalid))
                        j.viol = (uint16_t) pick_violation(r, j);
                return j;
        };
        bool burst_phase = api_mode == 1;
        uint32_t since_fault = 100;
        uint64_t total_bytes = 0, total_jobs = 0;
        const uint64_t byte_budget = 3u << 20, job_budget = 1200;
        for (uint32_t i = 0; i < nops; i++) {
                if (total_bytes > byte_budget || total_jobs > job_budget)
                        break;
                Op op;
                op.task = (uint8_t) r.below((uint32_t) nt);
                since_fault++;
                if (api_mode == 2 && r.chance(0.05))
                        burst_phase = !burst_phase;
                double u = (double) r.below(1000000) / 1e6;
                if ((u -= p_reinit) < 0 && since_fault > 30) {
                        op.kind = OP_REINIT;
                        op.a = (int) r.below(NCFG);
                        since_fault = 0;
                } else if ((u -= p_reattach) < 0 && since_fault > 10) {
                        op.kind = OP_REATTACH;
                        op.a = 0;
                        since_fault = 0;
                } else if ((u -= p_misuse) < 0) {
                        op.kind = OP_MISUSE;
                        op.a = (int) r.below(7);
                } else if ((u -= p_flush) < 0) {
                        if (burst_phase) {
                                op.kind = OP_FLUSH_BURST;
                                static const int mx[] = { 1, 2, 4, 8, 16, 64, 128, 128 };
                                op.a = mx[r.below(8)];
                        } else
                                op.kind = OP_FLUSH;
                } else if ((u -= p_getc) < 0) {
                        op.kind = burst_phase ? OP_QUEUE_SIZE : OP_GET_COMPLETED;
                } else if ((u -= p_qs) < 0) {
                        op.kind = OP_QUEUE_SIZE;
                } else if ((u -= p_getnext) < 0) {
                        op.kind = OP_GET_NEXT;
                } else if (burst_phase) {
                        op.kind = OP_BURST;
                        uint32_t y = r.below(20);
                        uint32_t n = y < 1 ? 0 : y < 5 ? 1 : y < 12 ? r.range(2, 8) : y < 16 ? r.range(9, 32) : y < 19 ? r.range(33, 127) : 128;
                        if (go.max_len > 8192 && n > 8)
                                n = 8;
                        op.nocheck = r.chance(p_nocheck);
                        bool inv_burst = !op.nocheck && p_invalid > 0 && r.chance(0.15);
                        for (uint32_t k = 0; k < n; k++)
                                op.jobs.push_back(mkjob(false));
                        if (inv_burst && n) {
                                JobSpec &j = op.jobs[r.below(n)];
                                j.viol = (uint16_t) pick_violation(r, j);
                        }
                } else {
                        op.kind = OP_SUBMIT;
                        op.nocheck = r.chance(p_nocheck);
                        op.jobs.push_back(mkjob(!op.nocheck));
                }
                for (auto &j : op.jobs) {
                        total_bytes += spec_src_bytes(j);
                        total_jobs++;
                }
                p.ops.push_back(op);
                // F10: queue-full pressure block, placed while something is parked
                if (pc.allow_full && !burst_phase && api_mode == 0 && r.chance(0.004)) {
                        GenOpts g2 = go;
                        g2.len_profile = LEN_TINY;
                        g2.max_len = 256;
                        g2.guard = false;
                        Op ps;
                        ps.task = op.task;
                        ps.kind = OP_SUBMIT;
                        ps.jobs.push_back(gen_job(r, parker_suite(), g2));
                        p.ops.push_back(ps);
                        uint32_t cnt = r.range(250, 300);
                        total_jobs += cnt / 4;
                        Suite im = immediate_suite(r);
                        for (uint32_t k = 0; k < cnt; k++) {
                                Op q;
                                q.task = op.task;
                                q.kind = OP_SUBMIT;
                                q.nocheck = r.chance(0.3);
                                q.jobs.push_back(gen_job(r, im, g2));
                                p.ops.push_back(q);
                        }
                }
        }
        return p;
}

#include "plangen.h"
#include <algorithm>
#include <string.h>

int
pick_violation(Rng &r, const JobSpec &s)
{
        int cand[64], n = 0;
        for (int v = 1; v < viol_count(); v++)
                if (viol_applies(v, s))
                        cand[n++] = v;
        return n ? cand[r.below((uint32_t) n)] : 0;
}

// a scatter-gather job that carries its whole message as a segment list (IMB_SGL_ALL)
static JobSpec
gen_sgl_all_job(Rng &r, const GenOpts &go)
{
        Suite s;
        s.cipher = r.chance(0.5) ? IMB_CIPHER_GCM_SGL : IMB_CIPHER_CHACHA20_POLY1305_SGL;
        s.hash = (uint8_t) aead_hash_for(s.cipher);
        s.key_len = s.cipher == IMB_CIPHER_GCM_SGL ? (uint16_t) r.pick(cipher_key_lens(IMB_CIPHER_GCM)) : 32;
        s.dir = r.chance(0.5) ? IMB_DIR_ENCRYPT : IMB_DIR_DECRYPT;
        s.order = s.dir == IMB_DIR_ENCRYPT ? IMB_ORDER_CIPHER_HASH : IMB_ORDER_HASH_CIPHER;
        JobSpec j = gen_job(r, s, go);
        j.sgl_state = IMB_SGL_ALL;
        uint32_t k = r.range(0, 6);
        for (uint32_t c = 0; c < k; c++)
                j.cuts.push_back(r.below(j.c_len + 1));
        std::sort(j.cuts.begin(), j.cuts.end());
        return j;
}

static Suite
parker_suite()
{
        Suite s;
        s.cipher = IMB_CIPHER_CBC;
        s.key_len = 16;
        s.dir = IMB_DIR_ENCRYPT;
        return s;
}
static Suite
immediate_suite(Rng &r)
{
        Suite s;
        if (r.chance(0.5)) {
                s.hash = IMB_AUTH_CRC32_ETHERNET_FCS;
                s.order = IMB_ORDER_HASH_CIPHER;
        } else {
                s.cipher = IMB_CIPHER_CNTR;
                s.key_len = 16;
        }
        return s;
}

ProfileCfg
profile_by_name(const std::string &name, const std::string &prop, int tier)
{
        ProfileCfg p;
        p.name = name;
        p.prop = prop;
        const bool th = tier > 0;
        if (name == "sched") { // C05: scheduler model, all call kinds, invalid jobs, misuse, queue-full
                p.oracles = OR_FIFO | OR_DESC | OR_REJECT;
                p.allow_invalid = p.allow_misuse = true;
                p.max_ops = th ? 2000 : 400;
                p.max_len = 512;
        } else if (name == "desc") { // C14: descriptor + errno after every call, failing/succeeding calls alternate
                p.oracles = OR_FIFO | OR_DESC | OR_REJECT;
                p.allow_invalid = p.allow_misuse = true;
                p.max_ops = 200;
                p.max_len = 1024;
        } else if (name == "solo") { // C04
                p.oracles = OR_FIFO | OR_SOLO | OR_MEM;
                p.max_ops = th ? 600 : 250;
                p.max_len = 2048;
        } else if (name == "cc") { // C18
                p.oracles = OR_FIFO;
                p.allow_invalid = true;
                p.max_ops = 200;
        } else if (name == "guard") { // C07
                p.oracles = OR_MEM | OR_FIFO;
                p.guard = true;
                p.max_ops = 60;
                p.max_len = 1100;
        } else if (name == "reinit") { // C15
                p.oracles = OR_FIFO | OR_DESC | OR_SOLO;
                p.allow_reinit = true;
                p.allow_invalid = true; // so that a re-init also happens with a pending error code in the manager
                p.allow_misuse = true;
                p.max_ops = 120;
                p.max_len = 1024;
        } else if (name == "reattach") { // C16
                p.oracles = OR_FIFO | OR_DESC | OR_SOLO | OR_MEM;
                p.allow_reattach = true;
                p.max_ops = 120;
                p.max_len = 1024;
        } else if (name == "reject") { // C12
                p.oracles = OR_FIFO | OR_DESC | OR_REJECT | OR_MEM | OR_SOLO;
                p.allow_invalid = p.allow_misuse = true;
                p.sgl_jobs = true;
                p.guard = true;
                p.max_ops = 80;
                p.max_len = 600;
        } else if (name == "xvar") { // C08 W1
                p.oracles = OR_FIFO | OR_XVAR;
                p.max_ops = 40;
                p.max_len = 1024;
                p.big_prob = 0.35; // length classes above 32 KiB / 256 blocks differ per variant too (16-bit lane lengths)
                p.allow_full = false;
        } else if (name == "ref_cipher") {
                p.oracles = OR_FIFO | OR_REF;
                p.suite_kind = 0;
                p.max_ops = 80;
        } else if (name == "ref_hash") {
                p.oracles = OR_FIFO | OR_REF;
                p.suite_kind = 1;
                p.max_ops = 80;
        } else if (name == "ref_aead") {
                p.oracles = OR_FIFO | OR_REF;
                p.suite_kind = 3;
                p.max_ops = 80;
        } else if (name == "ref_chain") {
                p.oracles = OR_FIFO | OR_REF;
                p.suite_kind = 2;
                p.max_ops = 60;
        } else if (name == "docsis_big") { // exploration aid: DOCSIS+CRC32 near the 64 KiB limit, co-scheduled
                p.oracles = OR_FIFO | OR_REF | OR_SOLO;
                p.max_ops = 12;
                p.max_len = 65534;
                p.allow_full = false;
                for (int k : { 16, 32 })
                        for (int d = 1; d <= 2; d++) {
                                Suite su;
                                su.cipher = IMB_CIPHER_DOCSIS_SEC_BPI;
                                su.key_len = (uint16_t) k;
                                su.dir = (uint8_t) d;
                                su.hash = IMB_AUTH_DOCSIS_CRC32;
                                su.order = d == 1 ? IMB_ORDER_HASH_CIPHER : IMB_ORDER_CIPHER_HASH;
                                p.fixed_suites.push_back(su);
                        }
        } else if (name == "scrub") { // C13
                p.oracles = OR_FIFO | OR_SCRUB;
                p.max_ops = 40;
                p.max_len = 600;
                p.allow_full = false;
                p.big_lens = false;
        } else if (name == "scrub_entry") { // exploration aid for C13: residues after direct / synchronous-burst calls
                p.oracles = OR_FIFO | OR_SCRUB;
                p.max_len = 600;
        } else if (name == "f12") { // exploration aid: sync burst while async jobs are parked
                p.oracles = OR_FIFO | OR_DESC | OR_SOLO;
        } else if (name == "keyprep") { // C11
                p.oracles = OR_FIFO | OR_REF;
                p.max_ops = 60;
                p.max_len = 400;
        } else if (name == "entry") { // C09
                p.oracles = OR_FIFO | OR_DESC | OR_MEM | OR_REF;
                p.max_len = 1500;
        } else if (name == "reject_sync") { // C12, synchronous bursts
                p.oracles = OR_FIFO | OR_DESC | OR_MEM | OR_REJECT;
                p.allow_invalid = true;
                p.guard = true;
                p.max_len = 600;
        } else if (name == "sgl") { // C10
                p.oracles = OR_FIFO | OR_DESC | OR_SOLO | OR_REF;
                p.max_len = 600;
        } else if (name == "indep") { // C17 L1
                p.oracles = OR_FIFO | OR_DESC;
                p.ntasks = 3;
                p.allow_invalid = true;
                p.max_ops = 150;
                p.max_len = 600;
        }
        return p;
}

Plan
gen_plan(const ProfileCfg &pc, uint64_t run_seed)
{
        Rng r(run_seed);
        Plan p;
        p.seed = run_seed;
        p.profile = pc.name;
        p.prop = pc.prop;
        p.oracles = pc.oracles;
        int nt = pc.ntasks > 1 ? (int) r.range(2, (uint32_t) pc.ntasks) : 1;
        for (int i = 0; i < nt; i++)
                p.task_cfg.push_back(pc.force_cfg >= 0 ? pc.force_cfg : (int) r.below(NCFG));
        p.warmup = r.chance(0.5) ? 0 : r.below(256);

        // ---- swarm configuration
        std::vector<Suite> suites;
        uint32_t ns = r.range(1, 6);
        for (uint32_t i = 0; i < ns; i++) {
                if (!pc.fixed_suites.empty())
                        suites.push_back(r.pick(pc.fixed_suites));
                else
                        suites.push_back(gen_suite(r, pc.suite_kind));
        }
        static const double flushiness[] = { 0.02, 0.05, 0.1, 0.2, 0.4, 0.6 };
        const double p_flush = flushiness[r.below(6)];
        const double p_getc = r.chance(0.5) ? 0.05 : 0.3;
        const double p_qs = 0.05;
        const double p_getnext = r.chance(0.5) ? 0.02 : 0.1;
        const double p_invalid = pc.allow_invalid && r.chance(0.6) ? (r.chance(0.5) ? 0.05 : 0.25) : 0.0;
        const double p_misuse = pc.allow_misuse && r.chance(0.4) ? 0.04 : 0.0;
        const double p_nocheck = r.chance(0.5) ? 0.0 : 0.5;
        const int api_mode = !pc.allow_burst ? 0 : (int) r.below(3); // 0 job, 1 burst, 2 alternate
        const double p_reinit = pc.allow_reinit ? 0.03 : 0.0;
        const double p_reattach = pc.allow_reattach ? 0.04 : 0.0;
        const bool reattach_other_image = pc.allow_reattach && r.chance(0.5);
        GenOpts go;
        go.len_profile = (int) r.below(LEN_NPROF);
        go.max_len = (pc.big_lens && r.chance(pc.big_prob)) ? 65534 : pc.max_len;
        if (go.max_len <= 4096 && (go.len_profile == LEN_4K || go.len_profile == LEN_MAX))
                go.len_profile = LEN_MIXED;
        go.guard = pc.guard;
        go.oop = true;
        uint32_t x = r.below(10);
        uint32_t nops = x < 5 ? r.range(5, 40) : x < 9 ? r.range(20, pc.max_ops / 2 + 20) : r.range(pc.max_ops / 2, pc.max_ops);
        if (go.max_len > 8192 && nops > 60)
                nops = 60; // long messages: keep the run short

        // scatter-gather jobs among the ordinary ones (profiles that submit invalid jobs): whole-message (ALL) jobs valid or
        // invalid, single-state (INIT / UPDATE / COMPLETE) jobs only ever with a violation, so that no stream is left open
        const double p_sgl = pc.sgl_jobs && r.chance(0.5) ? 0.08 : 0.0;
        auto mkjob = [&](bool allow_inv) {
                if (p_sgl > 0 && r.chance(p_sgl)) {
                        JobSpec j = gen_sgl_all_job(r, go);
                        if (allow_inv && r.chance(0.6)) {
                                if (r.chance(0.4))
                                        j.sgl_state = (uint8_t) r.below(3);
                                j.viol = (uint16_t) pick_violation(r, j);
                                if (!j.viol)
                                        j.sgl_state = IMB_SGL_ALL;
                        }
                        return j;
                }
                JobSpec j = gen_job(r, r.pick(suites), go);
                if (allow_inv && p_invalid > 0 && r.chance(p_invalid))
                        j.viol = (uint16_t) pick_violation(r, j);
                return j;
        };
        bool burst_phase = api_mode == 1;
        uint32_t since_fault = 100;
        uint64_t total_bytes = 0, total_jobs = 0;
        const uint64_t byte_budget = 3u << 20, job_budget = 1200;
        for (uint32_t i = 0; i < nops; i++) {
                if (total_bytes > byte_budget || total_jobs > job_budget)
                        break;
                Op op;
                op.task = (uint8_t) r.below((uint32_t) nt);
                since_fault++;
                if (api_mode == 2 && r.chance(0.05))
                        burst_phase = !burst_phase;
                double u = (double) r.below(1000000) / 1e6;
                if ((u -= p_reinit) < 0 && since_fault > 30) {
                        op.kind = OP_REINIT;
                        op.a = (int) r.below(NCFG);
                        since_fault = 0;
                } else if ((u -= p_reattach) < 0 && since_fault > 10) {
                        op.kind = OP_REATTACH;
                        op.a = reattach_other_image ? 1 : 0;
                        since_fault = 0;
                } else if ((u -= p_misuse) < 0) {
                        op.kind = OP_MISUSE;
                        op.a = (int) r.below(7);
                } else if ((u -= p_flush) < 0) {
                        if (burst_phase) {
                                op.kind = OP_FLUSH_BURST;
                                static const int mx[] = { 1, 2, 4, 8, 16, 64, 128, 128 };
                                op.a = mx[r.below(8)];
                        } else
                                op.kind = OP_FLUSH;
                } else if ((u -= p_getc) < 0) {
                        op.kind = burst_phase ? OP_QUEUE_SIZE : OP_GET_COMPLETED;
                } else if ((u -= p_qs) < 0) {
                        op.kind = OP_QUEUE_SIZE;
                } else if ((u -= p_getnext) < 0) {
                        op.kind = OP_GET_NEXT;
                        // half of them take the slot, fill it and submit only later (other calls in between)
                        if (!burst_phase && r.chance(0.6))
                                op.jobs.push_back(mkjob(false));
                } else if (burst_phase) {
                        op.kind = OP_BURST;
                        uint32_t y = r.below(20);
                        uint32_t n = y < 1 ? 0 : y < 5 ? 1 : y < 12 ? r.range(2, 8) : y < 16 ? r.range(9, 32) : y < 19 ? r.range(33, 127) : 128;
                        if (go.max_len > 8192 && n > 8)
                                n = 8;
                        op.nocheck = r.chance(p_nocheck);
                        bool inv_burst = !op.nocheck && p_invalid > 0 && r.chance(0.15);
                        for (uint32_t k = 0; k < n; k++)
                                op.jobs.push_back(mkjob(false));
                        if (inv_burst && n) {
                                JobSpec &j = op.jobs[r.below(n)];
                                j.viol = (uint16_t) pick_violation(r, j);
                        }
                } else {
                        op.kind = OP_SUBMIT;
                        op.nocheck = r.chance(p_nocheck);
                        op.jobs.push_back(mkjob(!op.nocheck));
                }
                for (auto &j : op.jobs) {
                        // the constant-time (SAFE_LOOKUP) C implementations are 10-50x slower per byte than everything else:
                        // weigh their bytes so that one run stays well below a second
                        const uint64_t w = j.cipher == IMB_CIPHER_DES3 ? 24
                                           : (j.cipher == IMB_CIPHER_DES || j.cipher == IMB_CIPHER_DOCSIS_DES ||
                                              j.cipher == IMB_CIPHER_KASUMI_UEA1_BITLEN || j.hash == IMB_AUTH_KASUMI_UIA1)
                                                     ? 8
                                                     : 1;
                        total_bytes += w * spec_src_bytes(j);
                        total_jobs++;
                }
                p.ops.push_back(op);
                // F10: queue-full pressure block, placed while something is parked
                if (pc.allow_full && !burst_phase && api_mode == 0 && r.chance(0.004)) {
                        GenOpts g2 = go;
                        g2.len_profile = LEN_TINY;
                        g2.max_len = 256;
                        g2.guard = false;
                        Op ps;
                        ps.task = op.task;
                        ps.kind = OP_SUBMIT;
                        ps.jobs.push_back(gen_job(r, parker_suite(), g2));
                        p.ops.push_back(ps);
                        uint32_t cnt = r.range(250, 300);
                        total_jobs += cnt / 4;
                        Suite im = immediate_suite(r);
                        for (uint32_t k = 0; k < cnt; k++) {
                                Op q;
                                q.task = op.task;
                                q.kind = OP_SUBMIT;
                                q.nocheck = r.chance(0.3);
                                q.jobs.push_back(gen_job(r, im, g2));
                                p.ops.push_back(q);
                        }
                }
        }
        // C17 L2: pre-emption points inside calls (the next op, of another task, runs inside this op's call)
        if (nt > 1 && r.chance(0.4)) {
                uint32_t want = r.range(1, 3), placed = 0;
                for (int tries = 0; tries < 40 && placed < want && p.ops.size() > 1; tries++) {
                        size_t k = r.below((uint32_t) p.ops.size() - 1);
                        Op &a = p.ops[k];
                        const Op &b = p.ops[k + 1];
                        if (a.pre || a.task == b.task || (k > 0 && p.ops[k - 1].pre))
                                continue;
                        if (a.kind != OP_SUBMIT && a.kind != OP_FLUSH && a.kind != OP_BURST && a.kind != OP_FLUSH_BURST &&
                            a.kind != OP_GET_COMPLETED && a.kind != OP_FLUSH_ALL)
                                continue;
                        // roughly log-uniform instruction count: short calls are a few hundred instructions long
                        static const uint32_t mags[5] = { 10, 60, 300, 1200, 4000 };
                        a.pre = 4 + r.below(mags[r.below(5)]);
                        placed++;
                }
        }
        return p;
}

// ------------------------------------------------------------------ C09: entry points
namespace {
enum { // must match DirectFn in ops_ext.inc
        D_GCM_ONESHOT = 1, D_GCM_IUF, D_GMAC_IUF, D_GHASH, D_SHA_ONESHOT, D_CRC, D_ZUC_EEA3_1, D_ZUC_EEA3_4, D_ZUC_EEA3_N,
        D_ZUC_EIA3_1, D_ZUC_EIA3_N, D_SNOW3G_F8_1, D_SNOW3G_F8_1_BIT, D_SNOW3G_F8_2, D_SNOW3G_F8_4, D_SNOW3G_F8_8, D_SNOW3G_F8_N,
        D_SNOW3G_F8_8_MK, D_SNOW3G_F8_N_MK, D_SNOW3G_F9_1, D_KASUMI_F8_1, D_KASUMI_F8_1_BIT, D_KASUMI_F8_2, D_KASUMI_F8_3,
        D_KASUMI_F8_4, D_KASUMI_F8_N, D_KASUMI_F9_1, D_CHACHAPOLY_IUF, D_QUIC_GCM, D_QUIC_CHACHAPOLY, D_QUIC_HP_AES, D_QUIC_HP_CHACHA,
        D_CFB_ONE, D_SHA_ONE_BLOCK, D_NFN
};
bool
same_len_op(int a)
{
        // only the multi-buffer stream-cipher / MAC calls with one length per buffer take part in the length-edge bias
        switch (a) {
        case D_ZUC_EEA3_4:
        case D_ZUC_EEA3_N:
        case D_ZUC_EIA3_N:
        case D_SNOW3G_F8_2:
        case D_SNOW3G_F8_4:
        case D_SNOW3G_F8_8:
        case D_SNOW3G_F8_N:
        case D_SNOW3G_F8_8_MK:
        case D_SNOW3G_F8_N_MK:
        case D_KASUMI_F8_2:
        case D_KASUMI_F8_N: return false;
        default: return true;
        }
}
uint32_t
burst_size(Rng &r)
{
        uint32_t y = r.below(20);
        return y < 4 ? 1 : y < 11 ? r.range(2, 8) : y < 15 ? r.range(9, 20) : y < 18 ? r.range(21, 64) : y < 19 ? r.range(65, 127) : 128;
}
} // namespace

Plan
gen_plan_entry(const ProfileCfg &pc, uint64_t run_seed)
{
        Rng r(run_seed);
        Plan p;
        p.seed = run_seed;
        p.profile = pc.name;
        p.prop = pc.prop;
        p.oracles = pc.oracles;
        p.task_cfg.push_back(pc.force_cfg >= 0 ? pc.force_cfg : (int) r.below(NCFG));
        GenOpts go;
        go.len_profile = (int) r.below(LEN_NPROF);
        go.max_len = r.chance(0.1) ? 20000 : pc.max_len;
        if (go.max_len <= 4096 && (go.len_profile == LEN_4K || go.len_profile == LEN_MAX))
                go.len_profile = LEN_MIXED;
        go.offsets = false;
        go.guard = pc.guard;
        uint32_t nops = r.range(3, 25);
        uint64_t total = 0;
        for (uint32_t i = 0; i < nops && total < (2u << 20); i++) {
                Op op;
                uint32_t x = r.below(100);
                Suite s;
                if (x < 45) {
                        op.kind = OP_SYNC_BURST;
                        op.nocheck = r.chance(0.4);
                        uint32_t y = r.below(10);
                        op.a = y < 5 ? 0 : y < 9 ? 1 : 2;
                        if (op.a == 0) {
                                static const int cs[] = { IMB_CIPHER_CBC, IMB_CIPHER_CNTR, IMB_CIPHER_ECB, IMB_CIPHER_CFB };
                                s.cipher = (uint8_t) cs[r.below(4)];
                                s.key_len = (uint16_t) r.pick(cipher_key_lens(s.cipher));
                                s.dir = r.chance(0.5) ? IMB_DIR_ENCRYPT : IMB_DIR_DECRYPT;
                        } else if (op.a == 1) {
                                static const int hs[] = { IMB_AUTH_HMAC_SHA_1, IMB_AUTH_HMAC_SHA_224, IMB_AUTH_HMAC_SHA_256,
                                                          IMB_AUTH_HMAC_SHA_384, IMB_AUTH_HMAC_SHA_512, IMB_AUTH_SHA_1,
                                                          IMB_AUTH_SHA_224, IMB_AUTH_SHA_256, IMB_AUTH_SHA_384, IMB_AUTH_SHA_512,
                                                          IMB_AUTH_AES_CMAC, IMB_AUTH_AES_CMAC_BITLEN, IMB_AUTH_AES_CMAC_256 };
                                s.hash = (uint8_t) hs[r.below(13)];
                                s.order = IMB_ORDER_HASH_CIPHER;
                        } else {
                                s.cipher = IMB_CIPHER_CCM;
                                s.hash = IMB_AUTH_AES_CCM;
                                s.key_len = r.chance(0.5) ? 16 : 32;
                                s.dir = r.chance(0.5) ? IMB_DIR_ENCRYPT : IMB_DIR_DECRYPT;
                                s.order = s.dir == IMB_DIR_ENCRYPT ? IMB_ORDER_HASH_CIPHER : IMB_ORDER_CIPHER_HASH;
                        }
                        uint32_t n = burst_size(r);
                        if (go.max_len > 8192 && n > 8)
                                n = 8;
                        for (uint32_t k = 0; k < n; k++)
                                op.jobs.push_back(gen_job(r, s, go));
                        if (pc.allow_invalid && !op.nocheck && r.chance(0.3)) {
                                // an invalid job somewhere in a checked synchronous burst (only violations that make
                                // sense for the burst's fixed cipher/hash/direction/key size)
                                JobSpec &j = op.jobs[r.below(n)];
                                for (int tries = 0; tries < 8 && !j.viol; tries++) {
                                        int v = pick_violation(r, j);
                                        const char *nm = viol_name(v);
                                        if (!strcmp(nm, "cipher_mode") || !strcmp(nm, "hash_alg") || !strcmp(nm, "cipher_direction") ||
                                            !strcmp(nm, "key_len") || !strncmp(nm, "aead_", 5))
                                                continue; // these are call arguments in the synchronous API, not job fields
                                        j.viol = (uint16_t) v;
                                }
                        }
                } else {
                        op.kind = OP_DIRECT;
                        op.a = (int) r.range(1, D_NFN - 1);
                        op.b = (int) r.below(1000000);
                        uint32_t n = 1;
                        bool same_key = true, same_len = false, byte_len = false;
                        switch (op.a) {
                        case D_GCM_ONESHOT:
                        case D_GCM_IUF:
                                s.cipher = IMB_CIPHER_GCM;
                                s.hash = IMB_AUTH_AES_GMAC;
                                s.key_len = (uint16_t) r.pick(cipher_key_lens(IMB_CIPHER_GCM));
                                s.dir = r.chance(0.5) ? IMB_DIR_ENCRYPT : IMB_DIR_DECRYPT;
                                s.order = s.dir == IMB_DIR_ENCRYPT ? IMB_ORDER_CIPHER_HASH : IMB_ORDER_HASH_CIPHER;
                                break;
                        case D_GMAC_IUF: {
                                static const int g[] = { IMB_AUTH_AES_GMAC_128, IMB_AUTH_AES_GMAC_192, IMB_AUTH_AES_GMAC_256 };
                                s.hash = (uint8_t) g[r.below(3)];
                                s.order = IMB_ORDER_HASH_CIPHER;
                                break;
                        }
                        case D_GHASH: s.hash = IMB_AUTH_GHASH; s.order = IMB_ORDER_HASH_CIPHER; break;
                        case D_SHA_ONESHOT: {
                                static const int g[] = { IMB_AUTH_SHA_1, IMB_AUTH_SHA_224, IMB_AUTH_SHA_256, IMB_AUTH_SHA_384,
                                                         IMB_AUTH_SHA_512 };
                                s.hash = (uint8_t) g[r.below(5)];
                                s.order = IMB_ORDER_HASH_CIPHER;
                                break;
                        }
                        case D_CRC: {
                                static const int g[] = { IMB_AUTH_CRC32_ETHERNET_FCS, IMB_AUTH_CRC16_X25, IMB_AUTH_CRC32_SCTP,
                                                         IMB_AUTH_CRC24_LTE_A, IMB_AUTH_CRC24_LTE_B, IMB_AUTH_CRC16_FP_DATA,
                                                         IMB_AUTH_CRC11_FP_HEADER, IMB_AUTH_CRC7_FP_HEADER, IMB_AUTH_CRC10_IUUP_DATA,
                                                         IMB_AUTH_CRC6_IUUP_HEADER, IMB_AUTH_CRC32_WIMAX_OFDMA_DATA,
                                                         IMB_AUTH_CRC8_WIMAX_OFDMA_HCS };
                                s.hash = (uint8_t) g[r.below(12)];
                                s.order = IMB_ORDER_HASH_CIPHER;
                                break;
                        }
                        case D_ZUC_EEA3_1:
                        case D_ZUC_EEA3_4:
                        case D_ZUC_EEA3_N:
                                s.cipher = IMB_CIPHER_ZUC_EEA3;
                                s.key_len = 16;
                                same_key = false;
                                n = op.a == D_ZUC_EEA3_1 ? 1 : op.a == D_ZUC_EEA3_4 ? 4 : r.range(1, 20);
                                break;
                        case D_ZUC_EIA3_1:
                        case D_ZUC_EIA3_N:
                                s.hash = IMB_AUTH_ZUC_EIA3_BITLEN;
                                s.order = IMB_ORDER_HASH_CIPHER;
                                same_key = false;
                                n = op.a == D_ZUC_EIA3_1 ? 1 : r.range(1, 20);
                                break;
                        case D_SNOW3G_F8_1:
                        case D_SNOW3G_F8_1_BIT:
                        case D_SNOW3G_F8_2:
                        case D_SNOW3G_F8_4:
                        case D_SNOW3G_F8_8:
                        case D_SNOW3G_F8_N:
                        case D_SNOW3G_F8_8_MK:
                        case D_SNOW3G_F8_N_MK:
                                s.cipher = IMB_CIPHER_SNOW3G_UEA2_BITLEN;
                                s.key_len = 16;
                                byte_len = op.a != D_SNOW3G_F8_1_BIT;
                                same_key = !(op.a == D_SNOW3G_F8_8_MK || op.a == D_SNOW3G_F8_N_MK);
                                n = op.a == D_SNOW3G_F8_2 ? 2 : op.a == D_SNOW3G_F8_4 ? 4 : (op.a == D_SNOW3G_F8_8 || op.a == D_SNOW3G_F8_8_MK) ? 8
                                    : (op.a == D_SNOW3G_F8_N || op.a == D_SNOW3G_F8_N_MK) ? r.range(1, 16) : 1;
                                break;
                        case D_SNOW3G_F9_1: s.hash = IMB_AUTH_SNOW3G_UIA2_BITLEN; s.order = IMB_ORDER_HASH_CIPHER; break;
                        case D_KASUMI_F8_1:
                        case D_KASUMI_F8_1_BIT:
                        case D_KASUMI_F8_2:
                        case D_KASUMI_F8_3:
                        case D_KASUMI_F8_4:
                        case D_KASUMI_F8_N:
                                s.cipher = IMB_CIPHER_KASUMI_UEA1_BITLEN;
                                s.key_len = 16;
                                byte_len = op.a != D_KASUMI_F8_1_BIT;
                                same_len = op.a == D_KASUMI_F8_3 || op.a == D_KASUMI_F8_4;
                                n = op.a == D_KASUMI_F8_2 ? 2 : op.a == D_KASUMI_F8_3 ? 3 : op.a == D_KASUMI_F8_4 ? 4
                                    : op.a == D_KASUMI_F8_N ? r.range(1, 16) : 1;
                                break;
                        case D_KASUMI_F9_1: s.hash = IMB_AUTH_KASUMI_UIA1; s.order = IMB_ORDER_HASH_CIPHER; break;
                        case D_CHACHAPOLY_IUF:
                        case D_QUIC_CHACHAPOLY:
                                s.cipher = IMB_CIPHER_CHACHA20_POLY1305;
                                s.hash = IMB_AUTH_CHACHA20_POLY1305;
                                s.key_len = 32;
                                s.dir = r.chance(0.5) ? IMB_DIR_ENCRYPT : IMB_DIR_DECRYPT;
                                s.order = s.dir == IMB_DIR_ENCRYPT ? IMB_ORDER_CIPHER_HASH : IMB_ORDER_HASH_CIPHER;
                                if (op.a == D_QUIC_CHACHAPOLY)
                                        n = r.range(1, 40);
                                break;
                        case D_QUIC_GCM:
                                s.cipher = IMB_CIPHER_GCM;
                                s.hash = IMB_AUTH_AES_GMAC;
                                s.key_len = r.chance(0.5) ? 16 : 32; // QUIC uses AES-128 and AES-256
                                s.dir = r.chance(0.5) ? IMB_DIR_ENCRYPT : IMB_DIR_DECRYPT;
                                s.order = s.dir == IMB_DIR_ENCRYPT ? IMB_ORDER_CIPHER_HASH : IMB_ORDER_HASH_CIPHER;
                                n = r.range(1, 40);
                                break;
                        case D_QUIC_HP_AES:
                                s.cipher = IMB_CIPHER_ECB;
                                s.key_len = r.chance(0.5) ? 16 : 32;
                                s.dir = IMB_DIR_ENCRYPT;
                                n = r.range(1, 40);
                                break;
                        case D_QUIC_HP_CHACHA:
                                s.cipher = IMB_CIPHER_CHACHA20;
                                s.key_len = 32;
                                s.dir = IMB_DIR_ENCRYPT;
                                n = r.range(1, 40);
                                break;
                        case D_CFB_ONE:
                                s.cipher = IMB_CIPHER_CFB;
                                s.key_len = r.chance(0.5) ? 16 : 32;
                                s.dir = r.chance(0.5) ? IMB_DIR_ENCRYPT : IMB_DIR_DECRYPT;
                                break;
                        case D_SHA_ONE_BLOCK: {
                                static const int g[] = { IMB_AUTH_SHA_1,   IMB_AUTH_SHA_224, IMB_AUTH_SHA_256,
                                                         IMB_AUTH_SHA_384, IMB_AUTH_SHA_512, IMB_AUTH_MD5 };
                                s.hash = (uint8_t) g[r.below(6)];
                                s.order = IMB_ORDER_HASH_CIPHER;
                                break;
                        }
                        }
                        GenOpts g2 = go;
                        if (op.a == D_SNOW3G_F8_1_BIT || op.a == D_KASUMI_F8_1_BIT)
                                g2.offsets = true; // bit offsets are part of these entry points
                        for (uint32_t k = 0; k < n; k++) {
                                JobSpec j = gen_job(r, s, g2);
                                if (byte_len) {
                                        j.c_off = 0;
                                        j.c_len = (j.c_len + 7) & ~7u;
                                        if (s.cipher == IMB_CIPHER_KASUMI_UEA1_BITLEN && j.c_len > 19992)
                                                j.c_len = 19992;
                                }
                                if ((op.a == D_SNOW3G_F8_1_BIT || op.a == D_KASUMI_F8_1_BIT) && !spec_bitpath(j))
                                        j.c_len |= 1; // the bit-granular entry point: offset applies to source and destination
                                if (op.a == D_GCM_ONESHOT)
                                        j.iv_len = 12;
                                if (op.a == D_QUIC_GCM || op.a == D_QUIC_CHACHAPOLY) {
                                        // one key, AAD length and tag length per batch; 12-byte IVs
                                        j.iv_len = 12;
                                        j.c_off = j.h_off = 0;
                                        if (op.a == D_QUIC_CHACHAPOLY)
                                                j.tag_len = 16;
                                        if (k > 0) {
                                                j.aad_len = op.jobs[0].aad_len;
                                                j.tag_len = op.jobs[0].tag_len;
                                        }
                                }
                                if (op.a == D_QUIC_HP_AES || op.a == D_QUIC_HP_CHACHA) {
                                        j.c_off = 0;
                                        j.c_len = 16;
                                        j.inplace = 0;
                                }
                                if (op.a == D_CFB_ONE) {
                                        j.c_off = 0;
                                        j.c_len = 1 + (uint32_t) (j.seed % 16);
                                        j.iv_len = 16;
                                }
                                if (op.a == D_SHA_ONE_BLOCK) {
                                        j.h_off = 0;
                                        j.h_len = 128;
                                }
                                if (k > 0 && same_key)
                                        j.key_seed = op.jobs[0].key_seed;
                                if (k > 0 && same_len)
                                        j.c_len = op.jobs[0].c_len;
                                if (s.hash == IMB_AUTH_GHASH || op.a == D_GHASH)
                                        j.aiv_len = 16;
                                op.jobs.push_back(j);
                        }
                        // batch entry points: now and then a count of zero (everything else set up as usual)
                        switch (op.kind == OP_DIRECT ? op.a : 0) {
                        case D_ZUC_EEA3_N:
                        case D_ZUC_EIA3_N:
                        case D_SNOW3G_F8_N:
                        case D_SNOW3G_F8_N_MK:
                        case D_KASUMI_F8_N:
                        case D_QUIC_GCM:
                        case D_QUIC_CHACHAPOLY:
                        case D_QUIC_HP_AES:
                        case D_QUIC_HP_CHACHA:
                                if (r.below(16) == 0) {
                                        op.nocheck = 1;
                                        if (op.jobs.size() > 3)
                                                op.jobs.resize(3);
                                }
                                break;
                        default: break;
                        }
                }
                if (op.kind == OP_DIRECT && op.jobs.size() > 1 && !same_len_op(op.a) && r.chance(0.35)) {
                        // multi-buffer direct calls: the shortest buffer ends exactly on an internal key-stream / block group
                        // boundary (16, 32 or 64 bytes) and every other buffer is longer - the "common part" logic's edge
                        static const uint32_t units[3] = { 16, 32, 64 };
                        const uint32_t base = units[r.below(3)] * r.range(1, 4);
                        const size_t who = r.below((uint32_t) op.jobs.size());
                        for (size_t k = 0; k < op.jobs.size(); k++) {
                                JobSpec &j = op.jobs[k];
                                const bool hashj = j.cipher == IMB_CIPHER_NULL;
                                uint32_t &len = hashj ? j.h_len : j.c_len;
                                const bool bits = hashj ? (j.hash == IMB_AUTH_ZUC_EIA3_BITLEN || j.hash == IMB_AUTH_SNOW3G_UIA2_BITLEN)
                                                        : cipher_off_is_bits(j.cipher);
                                const uint32_t b = bits ? base * 8 : base;
                                if (k == who)
                                        len = b;
                                else if (len <= b)
                                        len = b + (bits ? 8 : 1) * r.range(1, 200);
                        }
                }
                for (auto &j : op.jobs)
                        total += spec_src_bytes(j);
                p.ops.push_back(op);
        }
        return p;
}


// C17: entry-point plans on two managers. Both managers issue the synchronous bursts and direct calls of an entry plan
// (each op goes to one of them; a manager whose own queue is not empty skips its synchronous bursts), and both get
// asynchronous jobs of the same suites parked through the job API in between, flushed now and then and at the end.
// Each task's history must equal its history when run alone (checked by the indep post step).
Plan
gen_plan_indep_entry(const ProfileCfg &pc, uint64_t run_seed)
{
        ProfileCfg pe = profile_by_name("entry", pc.prop, 0);
        pe.oracles = pc.oracles;
        Plan e = gen_plan_entry(pe, run_seed);
        Rng r(mix64(run_seed, 0x17E));
        Plan p = e;
        p.profile = pc.name;
        p.prop = pc.prop;
        p.oracles = pc.oracles;
        const int cfg = e.task_cfg.empty() ? 0 : e.task_cfg[0];
        // the same variant four times out of five (what is shared between managers is per variant), otherwise any other
        p.task_cfg = { r.below(5) ? cfg : (int) r.below(NCFG), cfg };
        p.ops.clear();
        uint32_t parked[2] = { 0, 0 };
        auto drain = [&](uint8_t t) {
                for (uint32_t i = 0; i < parked[t] + 1; i++) {
                        Op fo;
                        fo.kind = OP_FLUSH;
                        fo.task = t;
                        p.ops.push_back(fo);
                }
                parked[t] = 0;
        };
        for (const Op &eo : e.ops) {
                const uint8_t t = (uint8_t) r.below(2);
                if (!eo.jobs.empty() && !(eo.kind == OP_DIRECT && eo.a == D_CFB_ONE) && r.chance(0.5)) {
                        // park jobs of the same suite on one of the managers (one-shot descriptors: what the job API takes)
                        const uint8_t pt = (uint8_t) r.below(2);
                        uint32_t k = r.range(1, 3);
                        for (uint32_t i = 0; i < k && parked[pt] < 40; i++) {
                                const JobSpec &src = eo.jobs[r.below((uint32_t) eo.jobs.size())];
                                if (src.viol || src.cipher == IMB_CIPHER_GCM_SGL || src.cipher == IMB_CIPHER_CHACHA20_POLY1305_SGL)
                                        continue;
                                Op so;
                                so.kind = OP_SUBMIT;
                                so.task = pt;
                                JobSpec j = src;
                                j.seed = r.next();
                                so.jobs.push_back(j);
                                p.ops.push_back(so);
                                parked[pt]++;
                        }
                }
                if (parked[t] && r.chance(0.6))
                        drain(t); // so that this manager's synchronous burst is not skipped
                Op o = eo;
                o.task = t;
                p.ops.push_back(o);
        }
        drain(0);
        drain(1);
        return p;
}

// ------------------------------------------------------------------ C10: SGL streams
Plan
gen_plan_sgl(const ProfileCfg &pc, uint64_t run_seed)
{
        Rng r(run_seed);
        Plan p;
        p.seed = run_seed;
        p.profile = pc.name;
        p.prop = pc.prop;
        p.oracles = pc.oracles;
        p.task_cfg.push_back(pc.force_cfg >= 0 ? pc.force_cfg : (int) r.below(NCFG));
        p.warmup = r.chance(0.5) ? 0 : r.below(256);
        GenOpts go;
        go.len_profile = LEN_MIXED;
        go.max_len = pc.max_len;
        go.offsets = false;
        go.guard = pc.guard;
        uint32_t nstreams = r.range(1, 4);
        std::vector<uint32_t> remaining;
        for (uint32_t i = 0; i < nstreams; i++) {
                SglStream st;
                Suite s;
                s.cipher = r.chance(0.5) ? IMB_CIPHER_GCM_SGL : IMB_CIPHER_CHACHA20_POLY1305_SGL;
                s.hash = (uint8_t) aead_hash_for(s.cipher);
                s.key_len = s.cipher == IMB_CIPHER_GCM_SGL ? (uint16_t) r.pick(cipher_key_lens(IMB_CIPHER_GCM)) : 32;
                s.dir = r.chance(0.5) ? IMB_DIR_ENCRYPT : IMB_DIR_DECRYPT;
                s.order = s.dir == IMB_DIR_ENCRYPT ? IMB_ORDER_CIPHER_HASH : IMB_ORDER_HASH_CIPHER;
                st.base = gen_job(r, s, go);
                st.base.c_off = st.base.h_off = 0;
                st.base.inplace = r.chance(0.5);
                uint32_t total = st.base.c_len;
                // ordered partition into k segments, zero-length segments and cuts inside blocks included
                uint32_t k = r.chance(0.3) ? r.range(1, 3) : r.range(2, 12);
                std::vector<uint32_t> cuts;
                for (uint32_t c = 0; c + 1 < k; c++) {
                        uint32_t x = r.below(10);
                        uint32_t cut = x < 5 ? r.below(total + 1) : x < 8 ? (total ? (r.below(total + 1) & ~15u) + r.below(3) : 0) : r.below(total + 1) & ~63u;
                        if (cut > total)
                                cut = total;
                        cuts.push_back(cut);
                }
                std::sort(cuts.begin(), cuts.end());
                uint32_t prev = 0;
                for (auto c : cuts) {
                        st.segs.push_back(c - prev);
                        prev = c;
                }
                st.segs.push_back(total - prev);
                p.streams.push_back(st);
                // ops needed: GCM: INIT + k UPDATE + COMPLETE; ChaCha: INIT(seg0) + (k-1) UPDATE + COMPLETE
                remaining.push_back((uint32_t) st.segs.size() + 2);
        }
        // other traffic interleaved between the segments of the streams (also SGL_ALL jobs)
        std::vector<Suite> others;
        for (int i = 0; i < 3; i++)
                others.push_back(gen_suite(r, -1));
        bool left = true;
        while (left) {
                left = false;
                for (uint32_t i = 0; i < nstreams; i++)
                        if (remaining[i])
                                left = true;
                if (!left)
                        break;
                uint32_t x = r.below(100);
                Op op;
                if (x < 55) {
                        uint32_t i = r.below(nstreams);
                        if (!remaining[i])
                                continue;
                        remaining[i]--;
                        op.kind = OP_SGL_SEG;
                        op.a = (int) i;
                } else if (x < 80) {
                        op.kind = OP_SUBMIT;
                        op.jobs.push_back(gen_job(r, r.pick(others), go));
                } else if (x < 90) {
                        // SGL_ALL job with its own segment list
                        op.kind = OP_SUBMIT;
                        op.jobs.push_back(gen_sgl_all_job(r, go));
                } else if (x < 95)
                        op.kind = OP_FLUSH;
                else
                        op.kind = OP_GET_COMPLETED;
                p.ops.push_back(op);
        }
        return p;
}

// C10: systematic part - every ordered 3-partition (two cut positions i <= j) of short messages, per
// (variant, algorithm, key size, direction, message length); idx walks the whole table, 12 cut pairs per run
uint64_t
sgl_enum_cells()
{
        static const uint32_t lens[] = { 1, 15, 16, 17, 31, 32, 33, 47, 48, 63, 64, 65, 80, 127, 128, 129 };
        uint64_t chunks = 0;
        for (uint32_t L : lens)
                chunks += ((uint64_t) (L + 1) * (L + 2) / 2 + 11) / 12;
        return chunks * 56;
}

Plan
gen_plan_sgl_enum(const ProfileCfg &pc, uint64_t run_seed, uint64_t idx)
{
        static const uint32_t lens[] = { 1, 15, 16, 17, 31, 32, 33, 47, 48, 63, 64, 65, 80, 127, 128, 129 };
        const uint32_t nL = sizeof lens / sizeof lens[0];
        Rng r(run_seed);
        Plan p;
        p.seed = run_seed;
        p.profile = pc.name;
        p.prop = pc.prop;
        p.oracles = pc.oracles;
        idx %= sgl_enum_cells();
        const int v = (int) (idx % 7);
        const uint32_t a = (uint32_t) ((idx / 7) % 8);
        uint64_t rest = idx / 56;
        uint32_t L = lens[0];
        for (uint32_t li = 0; li < nL; li++) {
                const uint64_t ch = ((uint64_t) (lens[li] + 1) * (lens[li] + 2) / 2 + 11) / 12;
                if (rest < ch) {
                        L = lens[li];
                        break;
                }
                rest -= ch;
        }
        p.task_cfg.push_back(k_variant_cfgs[v]);
        p.warmup = r.below(256);
        GenOpts go;
        go.len_profile = LEN_MIXED;
        go.max_len = 256;
        go.offsets = false;
        go.guard = pc.guard;
        Suite s;
        s.cipher = a < 6 ? IMB_CIPHER_GCM_SGL : IMB_CIPHER_CHACHA20_POLY1305_SGL;
        s.hash = (uint8_t) aead_hash_for(s.cipher);
        s.key_len = a < 6 ? (uint16_t) (16 + 8 * (a / 2)) : 32;
        s.dir = (a & 1) ? IMB_DIR_DECRYPT : IMB_DIR_ENCRYPT;
        s.order = s.dir == IMB_DIR_ENCRYPT ? IMB_ORDER_CIPHER_HASH : IMB_ORDER_HASH_CIPHER;
        JobSpec base = gen_job_len(r, s, go, L);
        base.c_off = base.h_off = 0;
        base.c_len = base.h_len = L;
        // the rest-th block of 12 pairs (i <= j) in lexicographic order
        uint64_t first = rest * 12, n = 0;
        for (uint32_t i = 0; i <= L && p.streams.size() < 12; i++)
                for (uint32_t j = i; j <= L && p.streams.size() < 12; j++, n++) {
                        if (n < first)
                                continue;
                        SglStream st;
                        st.base = base;
                        st.base.inplace = (uint8_t) ((i + j) & 1);
                        st.base.scatter = (uint8_t) (((i * 31 + j) % 3) ? 1 + (i + j) % 200 : 0);
                        st.segs = { i, j - i, L - j };
                        p.streams.push_back(st);
                }
        for (size_t k = 0; k < p.streams.size(); k++) {
                // GCM: INIT, 3 UPDATE, COMPLETE; ChaCha: INIT(seg0), 2 UPDATE, COMPLETE - one op more than needed is harmless
                for (int q = 0; q < 5; q++) {
                        Op op;
                        op.kind = OP_SGL_SEG;
                        op.a = (int) k;
                        p.ops.push_back(op);
                }
        }
        return p;
}

// C12, direct API: a catalogue walk - each op is one direct function with one argument made invalid
Plan
gen_plan_dmisuse(const ProfileCfg &pc, uint64_t run_seed)
{
        Rng r(run_seed);
        Plan p;
        p.seed = run_seed;
        p.profile = pc.name;
        p.prop = pc.prop;
        p.oracles = pc.oracles;
        p.task_cfg.push_back(pc.force_cfg >= 0 ? pc.force_cfg : (int) r.below(NCFG));
        p.warmup = r.chance(0.5) ? 0 : r.below(256);
        GenOpts go;
        go.len_profile = LEN_TINY;
        go.max_len = 256;
        const uint32_t n = r.range(10, 60);
        const int cnt = direct_misuse_count();
        const uint32_t start = r.below((uint32_t) cnt);
        const bool walk = r.chance(0.5); // consecutive catalogue entries, or random ones
        for (uint32_t i = 0; i < n; i++) {
                if (r.chance(0.15)) {
                        // some ordinary traffic in between, drained again
                        Op sub;
                        sub.kind = OP_SUBMIT;
                        sub.jobs.push_back(gen_job(r, gen_suite(r, -1), go));
                        p.ops.push_back(sub);
                        Op fl;
                        fl.kind = OP_FLUSH_ALL;
                        p.ops.push_back(fl);
                }
                Op op;
                op.kind = OP_MISUSE;
                op.a = 100 + (int) (walk ? (start + i) % (uint32_t) cnt : r.below((uint32_t) cnt));
                op.b = (int) r.below(1u << 30);
                p.ops.push_back(op);
        }
        return p;
}

// F12 (exploration aid): a synchronous burst issued while asynchronous jobs of the same algorithm family are parked
Plan
gen_plan_f12(const ProfileCfg &pc, uint64_t run_seed)
{
        Rng r(run_seed);
        Plan p;
        p.seed = run_seed;
        p.profile = pc.name;
        p.prop = pc.prop;
        p.oracles = pc.oracles;
        p.task_cfg.push_back(pc.force_cfg >= 0 ? pc.force_cfg : (int) r.below(NCFG));
        p.warmup = r.chance(0.5) ? 0 : r.below(256);
        GenOpts go;
        go.len_profile = LEN_MIXED;
        go.max_len = 400;
        go.offsets = false;
        // family shared by the two APIs
        const bool hash_family = r.chance(0.4);
        Suite sync;
        if (hash_family) {
                static const int hs[] = { IMB_AUTH_HMAC_SHA_1, IMB_AUTH_HMAC_SHA_256, IMB_AUTH_HMAC_SHA_512, IMB_AUTH_SHA_1, IMB_AUTH_SHA_256,
                                          IMB_AUTH_AES_CMAC };
                sync.hash = (uint8_t) hs[r.below(6)];
                sync.order = IMB_ORDER_HASH_CIPHER;
        } else {
                static const int cs[] = { IMB_CIPHER_CBC, IMB_CIPHER_CFB };
                sync.cipher = (uint8_t) cs[r.below(2)];
                sync.key_len = (uint16_t) r.pick(cipher_key_lens(sync.cipher));
                sync.dir = IMB_DIR_ENCRYPT; // the multi-buffer direction
        }
        const uint32_t na = r.range(1, 6);
        for (uint32_t i = 0; i < na; i++) {
                Suite a = sync;
                if (hash_family) {
                        if (r.chance(0.5)) { // chained: cipher stage first, hash stage parked
                                a.cipher = IMB_CIPHER_CNTR;
                                a.key_len = 16;
                                a.dir = IMB_DIR_ENCRYPT;
                                a.order = IMB_ORDER_CIPHER_HASH;
                        }
                } else if (r.chance(0.6)) { // chained: cipher parked, hash stage still to come
                        a.hash = r.chance(0.5) ? IMB_AUTH_HMAC_SHA_1 : IMB_AUTH_SHA_256;
                        a.order = IMB_ORDER_CIPHER_HASH;
                }
                Op op;
                op.kind = OP_SUBMIT;
                op.jobs.push_back(gen_job(r, a, go));
                p.ops.push_back(op);
        }
        Op sb;
        sb.kind = OP_SYNC_BURST;
        sb.a = hash_family ? 1 : 0;
        sb.b = 12;
        const uint32_t n = r.range(1, 12);
        for (uint32_t i = 0; i < n; i++)
                sb.jobs.push_back(gen_job(r, sync, go));
        p.ops.push_back(sb);
        Op fl;
        fl.kind = OP_FLUSH_ALL;
        p.ops.push_back(fl);
        return p;
}

// ------------------------------------------------------------------ C11: key preparation helpers inside ordinary traffic
Plan
gen_plan_keyprep(const ProfileCfg &pc, uint64_t run_seed)
{
        Plan p = gen_plan(pc, run_seed);
        Rng r(run_seed ^ 0xC11C11);
        // sprinkle helper calls between the ops (also while jobs are parked)
        std::vector<Op> out;
        for (size_t i = 0; i <= p.ops.size(); i++) {
                uint32_t k = r.below(4);
                for (uint32_t q = 0; q < k; q++) {
                        Op op;
                        op.kind = OP_KEYPREP;
                        op.task = 0;
                        op.a = (int) r.range(1, 9);
                        uint32_t x = r.below(10);
                        op.b = x < 6 ? 0 : x < 7 ? 1 : x < 8 ? 2 : 3; // random / all-zero / all-one / single-bit keys
                        JobSpec j;
                        j.seed = r.next();
                        j.key_seed = r.next();
                        static const uint16_t kls[] = { 16, 24, 32 };
                        j.key_len = kls[r.below(3)];
                        uint32_t y = r.below(10);
                        static const uint8_t edge[] = { 63, 64, 65, 127, 128, 129 }; // around both block sizes
                        j.hkey_len = (uint8_t) (y < 1 ? 0 : y < 4 ? r.range(1, 64) : y < 7 ? edge[r.below(6)] : y < 9 ? r.range(65, 130) : r.range(127, 160));
                        op.jobs.push_back(j);
                        out.push_back(op);
                }
                if (i < p.ops.size())
                        out.push_back(p.ops[i]);
        }
        p.ops = out;
        return p;
}

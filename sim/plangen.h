// Seeded plan generators (swarm configuration per run). The only place where
// the PRNG is used; interpretation of a plan is a pure function of the plan.
#pragma once
#include "interp.h"

struct ProfileCfg {
        std::string name;
        std::string prop;
        uint32_t oracles = OR_FIFO | OR_DESC;
        int suite_kind = -1;           // -1 any, 0 cipher-only, 1 hash-only, 2 chained, 3 aead
        bool allow_invalid = false;    // F2
        bool allow_misuse = false;     // F11
        bool sgl_jobs = false;         // scatter-gather jobs (valid and invalid) among the ordinary submissions
        bool allow_reinit = false;     // F3
        bool allow_reattach = false;   // F4
        bool allow_burst = true;
        bool allow_full = true;        // F10 queue-full pressure
        bool guard = false;            // F7
        int ntasks = 1;
        uint32_t max_ops = 200;
        uint32_t max_len = 2048;       // usual cap on message length; some runs lift it
        bool big_lens = true;          // allow runs near 64 KiB
        double big_prob = 0.15;        // share of runs with the length cap lifted to 65534
        std::vector<Suite> fixed_suites; // if non-empty, draw suites from here
        int force_cfg = -1;
};

ProfileCfg profile_by_name(const std::string &name, const std::string &prop, int tier);
Plan gen_plan(const ProfileCfg &pc, uint64_t run_seed);
Plan gen_plan_entry(const ProfileCfg &pc, uint64_t run_seed);
Plan gen_plan_sgl(const ProfileCfg &pc, uint64_t run_seed);
Plan gen_plan_sgl_enum(const ProfileCfg &pc, uint64_t run_seed, uint64_t idx); // systematic 2-cut partitions
uint64_t sgl_enum_cells();
Plan gen_plan_keyprep(const ProfileCfg &pc, uint64_t run_seed);
Plan gen_plan_indep_entry(const ProfileCfg &pc, uint64_t run_seed); // C17: entry points on one manager, parked jobs on another
Plan gen_plan_f12(const ProfileCfg &pc, uint64_t run_seed); // exploration aid (sync burst with async jobs parked)
Plan gen_plan_dmisuse(const ProfileCfg &pc, uint64_t run_seed); // C12 direct-API argument catalogue
// a random applicable violation id for spec (0 if none)
int pick_violation(Rng &r, const JobSpec &s);

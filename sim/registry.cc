// Property -> check wiring: profile, budgets, evidence text.
#include "driver.h"

CaseSource source_for(const std::string &profile, const std::string &prop, int tier);
int special_check(const std::string &prop, BatchCfg &cfg, bool &handled); // special.cc
int c08_w2_fragment(BatchCfg cfg, std::string &json_fragment);
int c14_strerror_fragment(std::string &json_fragment);

struct CheckDef {
        const char *prop, *profile;
        uint64_t quick_runs, thorough_runs;
        double quick_budget, thorough_budget;
        const char *level;
        const char *rule;
};

static const char *k_state_rule =
        "One evaluation = one simulated run: a seeded plan (swarm-configured list of API-call ops and fault ops on 1..N "
        "managers) interpreted against the real library. distinct_nontrivial = number of distinct (abstract manager state, "
        "op kind) pairs reached, abstract state = (queue occupancy bucket {0,1,2-15,16-127,128-254,255+}, head job "
        "complete/parked/invalid, job-vs-burst API, ring wrapped or not, set of suites parked); pairs with an empty "
        "queue and a no-op are still counted once each, so the number is an upper bound by at most the op-kind count.";

static const CheckDef defs[] = {
        { "C04", "solo", 6000, 2000000, 100, 900, "exploration", k_state_rule },
        { "C05", "sched", 12000, 2000000, 100, 900, "exploration", k_state_rule },
        { "C07", "guard", 30000, 2000000, 100, 900, "exploration", k_state_rule },
        { "C13", "scrub", 6000, 2000000, 100, 900, "exploration", k_state_rule },
        { "C14", "desc", 12000, 2000000, 100, 900, "exploration", k_state_rule },
        { "C18", "cc", 12000, 2000000, 100, 900, "exploration", k_state_rule },
        { "C17", "indep", 6000, 2000000, 100, 900, "exploration", k_state_rule },
        { "C01", "ref_cipher", 8000, 2000000, 100, 900, "exploration", k_state_rule },
        { "C02", "ref_hash", 8000, 2000000, 100, 900, "exploration", k_state_rule },
        { "C03", "ref_aead", 8000, 2000000, 100, 900, "exploration", k_state_rule },
        { "C06", "ref_chain", 8000, 2000000, 100, 900, "exploration", k_state_rule },
        { "C08", "xvar", 4000, 2000000, 100, 900, "exploration", k_state_rule },
        { "C09", "entry", 6000, 2000000, 100, 900, "exploration", k_state_rule },
        { "C10", "sgl", 6000, 2000000, 100, 900, "exploration", k_state_rule },
        { "C11", "keyprep", 6000, 2000000, 100, 900, "exploration", k_state_rule },
        { "C12", "reject", 20000, 2000000, 100, 900, "fault_enumeration", k_state_rule },
        { "C15", "reinit", 8000, 2000000, 100, 900, "exploration", k_state_rule },
        { "C16", "reattach", 8000, 2000000, 100, 900, "exploration", k_state_rule },
};

int
check_main(const std::string &prop, BatchCfg cfg)
{
        bool handled = false;
        int rc = special_check(prop, cfg, handled);
        if (handled)
                return rc;
        for (auto &d : defs) {
                if (prop != d.prop)
                        continue;
                const bool th = cfg.tier == "thorough";
                if (!cfg.runs)
                        cfg.runs = th ? d.thorough_runs : d.quick_runs;
                if (cfg.budget_s <= 0)
                        cfg.budget_s = th ? d.thorough_budget : d.quick_budget;
                cfg.level = d.level;
                cfg.rule = d.rule;
                cfg.assumptions = {
                        "the library archive is rebuilt from /repo's working tree with default options (SAFE_DATA, SAFE_PARAM, SAFE_LOOKUP on)",
                        "variants AVX2 t3/t4 cannot execute on this host and are not covered",
                        "a clean batch is sampled evidence, not proof"
                };
                CaseSource src = source_for(d.profile, prop, th);
                if (prop == "C08") {
                        // second half of the property first: CPU-feature loss (fault enumeration, single process)
                        std::string frag;
                        int w2 = c08_w2_fragment(cfg, frag);
                        JW extra;
                        extra.out = frag;
                        int rc = run_batch(cfg, src, &extra);
                        return rc ? rc : (w2 ? 1 : 0);
                }
                if (prop == "C14") {
                        std::string frag;
                        int se = c14_strerror_fragment(frag);
                        JW extra;
                        extra.out = frag;
                        int rc = run_batch(cfg, src, &extra);
                        return rc ? rc : (se ? 1 : 0);
                }
                return run_batch(cfg, src);
        }
        fprintf(stderr, "no check registered for %s\n", prop.c_str());
        return 2;
}

// Checks that are fault enumerations rather than batches of random plans:
//   C20  self-test gating: corrupt each self-test entry (and subsets) through the
//        existing callback seam, on every variant and init function
//   C08  (second half) CPU-feature loss: init with required features hidden
// Each case is a small JSON record; replay = re-evaluate the record.
#include "driver.h"
#include <setjmp.h>
#include <signal.h>
#include <unistd.h>
#include <sys/stat.h>

extern uint64_t g_cpuid_remove;
extern uint64_t g_cpuid_calls;

namespace {

struct CbEvent {
        std::string phase, type, descr;
};
struct CbState {
        std::vector<CbEvent> ev;
        std::set<int> corrupt; // indices of CORRUPT callbacks that return 0
        int n_corrupt_seen = 0;
};

int
selftest_cb(void *arg, const IMB_SELF_TEST_CALLBACK_DATA *d)
{
        CbState *s = (CbState *) arg;
        CbEvent e;
        if (d) {
                e.phase = d->phase ? d->phase : "";
                e.type = d->type ? d->type : "";
                e.descr = d->descr ? d->descr : "";
        }
        s->ev.push_back(e);
        if (e.phase == IMB_SELF_TEST_PHASE_CORRUPT) {
                int idx = s->n_corrupt_seen++;
                if (s->corrupt.count(idx))
                        return 0;
        }
        return 1;
}

sigjmp_buf sp_jmp;
volatile sig_atomic_t sp_armed = 0;
void
sp_fault(int sig)
{
        if (sp_armed) {
                sp_armed = 0;
                siglongjmp(sp_jmp, sig);
        }
        _exit(3);
}
void
sp_handlers()
{
        struct sigaction sa;
        memset(&sa, 0, sizeof sa);
        sa.sa_handler = sp_fault;
        sa.sa_flags = SA_NODEFER | SA_ONSTACK;
        sigaction(SIGSEGV, &sa, nullptr);
        sigaction(SIGBUS, &sa, nullptr);
        sigaction(SIGILL, &sa, nullptr);
}

// park a few AES-CBC encrypt jobs (they stay in lanes) so that an init happens "mid-flight"
void
park_jobs(Mgr &g, int n, uint64_t seed)
{
        Rng r(seed);
        Suite s;
        s.cipher = IMB_CIPHER_CBC;
        s.key_len = 16;
        GenOpts go;
        go.max_len = 256;
        go.len_profile = LEN_TINY;
        for (int i = 0; i < n; i++) {
                JobSpec js = gen_job(r, s, go);
                MatJob *mj = new MatJob; // leaked on purpose: buffers must outlive the parked job
                materialize(*mj, js, g.m, g.img);
                IMB_JOB *j = L_get_next_job(g.m);
                *j = mj->tmpl;
                L_submit_job(g.m);
        }
}

// ---------------------------------------------------------------- C20
struct StCase {
        int cfg = 0;
        int via_auto = 0;      // 1: init_mb_mgr_auto under a CPUID mask that makes cfg's arch the best one
        int parked = 0;        // jobs parked before the init (F3)
        int persist = 0;       // the callback is registered once, a clean init follows, and the judged init is a later one
        std::vector<int> corrupt;
};

uint64_t
auto_mask_for_arch(int arch)
{
        if (arch == ARCH_AVX512)
                return 0;
        if (arch == ARCH_AVX2)
                return IMB_FEATURE_AVX512F | IMB_FEATURE_AVX512DQ | IMB_FEATURE_AVX512CD | IMB_FEATURE_AVX512BW |
                       IMB_FEATURE_AVX512VL;
        return IMB_FEATURE_AVX512F | IMB_FEATURE_AVX512DQ | IMB_FEATURE_AVX512CD | IMB_FEATURE_AVX512BW |
               IMB_FEATURE_AVX512VL | IMB_FEATURE_AVX2 | IMB_FEATURE_AVX;
}

struct StOut {
        std::vector<CbEvent> ev;
        bool pass_bit = false, st_bit = false;
        int err = 0;
        int used_arch = 0;
        bool crashed = false;
        bool cb_lost = false; // imb_self_test_get_cb() no longer returns the registered callback after an initialisation
};

StOut
run_init(const StCase &c, Mgr &g, bool fresh)
{
        StOut o;
        CbState st;
        for (int i : c.corrupt)
                st.corrupt.insert(i);
        g_cpuid_remove = c.via_auto ? auto_mask_for_arch(cfg_arch(c.cfg)) : 0;
        if (fresh) {
                size_t sz = g.img->imb_get_mb_mgr_size();
                g.mem = arena::alloc((uint32_t) sz, arena::PLACE_MID, 64, 0);
                g.m = (IMB_MGR *) tc("imb_set_pointers_mb_mgr", g.img->imb_set_pointers_mb_mgr, g.mem.p, cfg_flags(c.cfg), 1u);
                g.cfg = c.cfg;
        }
        tc("imb_self_test_set_cb", g.img->imb_self_test_set_cb, g.m, selftest_cb, &st);
        if (c.persist) {
                // a first, clean initialisation with the same registration; the callback must stay registered
                const std::set<int> want = st.corrupt;
                st.corrupt.clear();
                if (sigsetjmp(sp_jmp, 1) == 0) {
                        sp_armed = 1;
                        if (c.via_auto)
                                tc("init_mb_mgr_auto", g.img->init_auto, g.m, (IMB_ARCH *) nullptr);
                        else
                                tc("init_mb_mgr", g.img->init[cfg_arch(c.cfg)], g.m);
                        sp_armed = 0;
                } else
                        o.crashed = true;
                st.ev.clear();
                st.n_corrupt_seen = 0;
                st.corrupt = want;
                if (g.img == &g_img) {
                        imb_self_test_cb_t fn = nullptr;
                        void *arg = nullptr;
                        tc("imb_self_test_get_cb", imb_self_test_get_cb, g.m, &fn, &arg);
                        o.cb_lost = fn != selftest_cb || arg != (void *) &st;
                }
        }
        if (sigsetjmp(sp_jmp, 1) == 0) {
                sp_armed = 1;
                if (c.via_auto)
                        tc("init_mb_mgr_auto", g.img->init_auto, g.m, (IMB_ARCH *) nullptr);
                else
                        tc("init_mb_mgr", g.img->init[cfg_arch(c.cfg)], g.m);
                sp_armed = 0;
        } else
                o.crashed = true;
        g_cpuid_remove = 0;
        o.ev = st.ev;
        o.pass_bit = (g.m->features & IMB_FEATURE_SELF_TEST_PASS) != 0;
        o.st_bit = (g.m->features & IMB_FEATURE_SELF_TEST) != 0;
        o.err = g.m->imb_errno;
        o.used_arch = (int) g.m->used_arch;
        tc("imb_self_test_set_cb", g.img->imb_self_test_set_cb, g.m, (imb_self_test_cb_t) nullptr, (void *) nullptr);
        return o;
}

struct Entry {
        std::string type, descr;
};

// parse callback stream into entries; returns false (with why) when the stream is malformed
bool
parse_stream(const std::vector<CbEvent> &ev, std::vector<Entry> &ents, std::vector<int> &result, std::string &why)
{
        size_t i = 0;
        while (i < ev.size()) {
                if (ev[i].phase != IMB_SELF_TEST_PHASE_START) {
                        why = "callback #" + std::to_string(i) + " is '" + ev[i].phase + "' where START was expected";
                        return false;
                }
                Entry e{ ev[i].type, ev[i].descr };
                i++;
                if (i >= ev.size() || ev[i].phase != IMB_SELF_TEST_PHASE_CORRUPT) {
                        why = "START of '" + e.descr + "' not followed by CORRUPT";
                        return false;
                }
                i++;
                if (i >= ev.size() || (ev[i].phase != IMB_SELF_TEST_PHASE_PASS && ev[i].phase != IMB_SELF_TEST_PHASE_FAIL)) {
                        why = "entry '" + e.descr + "' has no PASS/FAIL callback";
                        return false;
                }
                result.push_back(ev[i].phase == IMB_SELF_TEST_PHASE_PASS ? 1 : 0);
                ents.push_back(e);
                i++;
        }
        return true;
}

struct DocAlg {
        const char *type, *needle, *doc;
};
const DocAlg k_documented[] = {
        { IMB_SELF_TEST_TYPE_KAT_AEAD, "GCM", "AES-GCM" },        { IMB_SELF_TEST_TYPE_KAT_AEAD, "CCM", "AES-CCM" },
        { IMB_SELF_TEST_TYPE_KAT_CIPHER, "CBC", "AES-CBC" },      { IMB_SELF_TEST_TYPE_KAT_CIPHER, "CTR", "AES-CTR" },
        { IMB_SELF_TEST_TYPE_KAT_CIPHER, "ECB", "AES-ECB" },      { IMB_SELF_TEST_TYPE_KAT_CIPHER, "CFB", "AES-CFB" },
        { IMB_SELF_TEST_TYPE_KAT_CIPHER, "TDES", "TDES-EDE-CBC" }, { IMB_SELF_TEST_TYPE_KAT_AUTH, "GMAC", "AES-GMAC" },
        { IMB_SELF_TEST_TYPE_KAT_AUTH, "CMAC", "AES-CMAC" },      { IMB_SELF_TEST_TYPE_KAT_AUTH, "SHA1", "SHA1" },
        { IMB_SELF_TEST_TYPE_KAT_AUTH, "224", "SHA224" },         { IMB_SELF_TEST_TYPE_KAT_AUTH, "256", "SHA256" },
        { IMB_SELF_TEST_TYPE_KAT_AUTH, "384", "SHA384" },         { IMB_SELF_TEST_TYPE_KAT_AUTH, "512", "SHA512" },
        { IMB_SELF_TEST_TYPE_KAT_AUTH, "SHA1", "HMAC-SHA1" },     { IMB_SELF_TEST_TYPE_KAT_AUTH, "224", "HMAC-SHA224" },
        { IMB_SELF_TEST_TYPE_KAT_AUTH, "256", "HMAC-SHA256" },    { IMB_SELF_TEST_TYPE_KAT_AUTH, "384", "HMAC-SHA384" },
        { IMB_SELF_TEST_TYPE_KAT_AUTH, "512", "HMAC-SHA512" },
};

std::string
st_case_json(const StCase &c)
{
        JW w;
        w.obj();
        w.str("special", "C20").num("cfg", c.cfg).str("variant", cfg_name(c.cfg)).num("via_auto", c.via_auto).num("parked", c.parked);
        w.num("persist", c.persist);
        w.arr("corrupt");
        for (int i : c.corrupt)
                w.anum(i);
        w.end_arr();
        w.end_obj();
        return w.out;
}

// evaluate one C20 case; n_entries: number of self-test entries (0 = discover)
std::vector<Violation>
eval_st(const StCase &c, std::vector<Entry> *entries_out = nullptr)
{
        std::vector<Violation> v;
        auto bad = [&](const std::string &oracle, const std::string &d) {
                Violation x;
                x.prop = "C20";
                x.oracle = oracle;
                x.detail = d + " [" + std::string(cfg_name(c.cfg)) + (c.via_auto ? " via init_mb_mgr_auto" : "") +
                           (c.parked ? ", jobs parked" : "") + "]";
                v.push_back(x);
        };
        arena::reset();
        Mgr g;
        StCase first = c;
        first.corrupt.clear();
        if (c.parked) {
                // manager already in use with jobs parked, then the init under test. The CPUID mask (if any)
                // is in force from the start: CPU features do not change while a process runs.
                g_cpuid_remove = c.via_auto ? auto_mask_for_arch(cfg_arch(c.cfg)) : 0;
                if (!mgr_create(g, c.cfg)) {
                        bad("selftest.setup", "could not create manager");
                        return v;
                }
                park_jobs(g, c.parked, 0xC20 + (uint64_t) c.cfg);
        }
        StOut o = run_init(c, g, !c.parked);
        if (o.crashed) {
                bad("selftest.crash", "initialisation crashed");
                return v;
        }
        if (o.cb_lost)
                bad("selftest.callback_lost", "imb_self_test_get_cb() does not return the registered callback after an initialisation");
        std::vector<Entry> ents;
        std::vector<int> res;
        std::string why;
        if (!parse_stream(o.ev, ents, res, why)) {
                bad("selftest.stream", "malformed callback stream: " + why);
                return v;
        }
        if (entries_out)
                *entries_out = ents;
        if (!o.st_bit)
                bad("selftest.feature_bit", "IMB_FEATURE_SELF_TEST not set after init");
        if (ents.empty())
                bad("selftest.not_run", "initialisation made no self-test callbacks");
        std::set<int> cs(c.corrupt.begin(), c.corrupt.end());
        for (size_t i = 0; i < ents.size(); i++) {
                bool expect_pass = !cs.count((int) i);
                if ((res[i] != 0) != expect_pass) {
                        bad(expect_pass ? "selftest.spurious_fail" : "selftest.missed",
                            std::string("entry #") + std::to_string(i) + " '" + ents[i].descr + "' (" + ents[i].type + ") reported " +
                                    (res[i] ? "PASS" : "FAIL") + (expect_pass ? " without corruption" : " although its input was corrupted"));
                }
        }
        bool any_corrupt = false;
        for (int i : c.corrupt)
                if (i < (int) ents.size())
                        any_corrupt = true;
        if (any_corrupt) {
                if (o.pass_bit)
                        bad("selftest.pass_bit", "self-test pass bit set although a self-test input was corrupted");
                if (o.err != IMB_ERR_SELFTEST)
                        bad("selftest.errno", "error code is " + std::to_string(o.err) + " instead of IMB_ERR_SELFTEST after a failed self-test");
        } else {
                if (!o.pass_bit)
                        bad("selftest.pass_bit", "self-test pass bit not set after a clean initialisation");
                if (o.err != 0)
                        bad("selftest.errno", "error code " + std::to_string(o.err) + " after a clean initialisation");
                // every documented algorithm is announced with the documented type
                for (auto &d : k_documented) {
                        bool found = false;
                        const std::string doc = d.doc;
                        const bool is_sha = doc.find("SHA") != std::string::npos;
                        const bool want_hmac = doc.find("HMAC") != std::string::npos;
                        for (auto &e : ents) {
                                if (e.type != d.type || e.descr.find(d.needle) == std::string::npos)
                                        continue;
                                if (is_sha) {
                                        // descriptions look like "SHA2-256" / "HMAC-SHA2-256": require SHA and the right HMAC-ness
                                        if (e.descr.find("SHA") == std::string::npos)
                                                continue;
                                        if ((e.descr.find("HMAC") != std::string::npos) != want_hmac)
                                                continue;
                                }
                                found = true;
                        }
                        if (!found)
                                bad("selftest.undocumented", std::string("documented self-test algorithm ") + d.doc + " (" + d.type +
                                                                     ") is not announced by the callback sequence");
                }
        }
        // the expected architecture was actually initialised
        if (o.used_arch != cfg_arch(c.cfg) + 1)
                bad("selftest.arch", "used_arch is " + std::to_string(o.used_arch));
        // a following clean init on the same manager passes again
        if (any_corrupt && v.empty()) {
                StOut o2 = run_init(first, g, false);
                if (o2.crashed || !o2.pass_bit || o2.err != 0)
                        bad("selftest.recover", "a clean initialisation after a failed self-test did not pass");
        }
        return v;
}

// ---------------------------------------------------------------- C08 W2
struct CpuCase {
        int init_fn = 0;        // 0 sse 1 avx2 2 avx512 3 auto
        uint64_t remove = 0;    // IMB_FEATURE_* bits hidden from CPUID
        int prior_cfg = -1;     // -1 fresh manager, else previously initialised as this cfg (must be supported under mask)
        int parked = 0;
};

uint64_t
required_features(int init_fn)
{
        switch (init_fn) {
        case 0: return IMB_CPUFLAGS_SSE;
        case 1: return IMB_CPUFLAGS_AVX2;
        case 2: return IMB_CPUFLAGS_AVX512;
        default: return IMB_CPUFLAGS_SSE;
        }
}

const char *
feature_name(uint64_t f)
{
        switch (f) {
        case IMB_FEATURE_SHANI: return "SHANI";
        case IMB_FEATURE_AESNI: return "AESNI";
        case IMB_FEATURE_PCLMULQDQ: return "PCLMULQDQ";
        case IMB_FEATURE_CMOV: return "CMOV";
        case IMB_FEATURE_SSE4_2: return "SSE4_2";
        case IMB_FEATURE_AVX: return "AVX";
        case IMB_FEATURE_AVX2: return "AVX2";
        case IMB_FEATURE_AVX512F: return "AVX512F";
        case IMB_FEATURE_AVX512DQ: return "AVX512DQ";
        case IMB_FEATURE_AVX512CD: return "AVX512CD";
        case IMB_FEATURE_AVX512BW: return "AVX512BW";
        case IMB_FEATURE_AVX512VL: return "AVX512VL";
        case IMB_FEATURE_VAES: return "VAES";
        case IMB_FEATURE_VPCLMULQDQ: return "VPCLMULQDQ";
        case IMB_FEATURE_GFNI: return "GFNI";
        case IMB_FEATURE_AVX512_IFMA: return "AVX512_IFMA";
        case IMB_FEATURE_BMI2: return "BMI2";
        case IMB_FEATURE_XSAVE: return "XSAVE";
        case IMB_FEATURE_OSXSAVE: return "OSXSAVE";
        }
        return "?";
}
std::string
feature_set_str(uint64_t m)
{
        std::string s;
        for (int b = 0; b < 40; b++)
                if (m & (1ull << b)) {
                        if (!s.empty())
                                s += "+";
                        s += feature_name(1ull << b);
                }
        return s.empty() ? "none" : s;
}

std::string
cpu_case_json(const CpuCase &c)
{
        static const char *fn[] = { "init_mb_mgr_sse", "init_mb_mgr_avx2", "init_mb_mgr_avx512", "init_mb_mgr_auto" };
        JW w;
        w.obj();
        w.str("special", "C08").num("init_fn", c.init_fn).str("init", fn[c.init_fn]).unum("remove", c.remove);
        w.str("removed_features", feature_set_str(c.remove)).num("prior_cfg", c.prior_cfg).num("parked", c.parked);
        w.end_obj();
        return w.out;
}

std::vector<Violation>
eval_cpu(const CpuCase &c)
{
        std::vector<Violation> v;
        static const char *fn[] = { "init_mb_mgr_sse", "init_mb_mgr_avx2", "init_mb_mgr_avx512", "init_mb_mgr_auto" };
        auto bad = [&](const std::string &oracle, const std::string &d) {
                Violation x;
                x.prop = "C08";
                x.oracle = oracle;
                x.detail = d + " [" + fn[c.init_fn] + " with " + feature_set_str(c.remove) + " hidden, " +
                           (c.prior_cfg < 0 ? std::string("fresh manager") : std::string("manager previously initialised as ") + cfg_name(c.prior_cfg)) +
                           (c.parked ? ", jobs parked" : "") + "]";
                x.key = std::string("init=") + fn[c.init_fn] + ";state=" + (c.prior_cfg < 0 ? "fresh" : "reinit");
                v.push_back(x);
        };
        arena::reset();
        Mgr g;
        g_cpuid_remove = c.remove;
        // which outcome is expected?
        uint64_t req = required_features(c.init_fn);
        bool expect_fail = (req & c.remove) != 0;
        int expect_arch = c.init_fn + 1;
        if (c.init_fn == 3) {
                // auto: best architecture still available
                if (!(IMB_CPUFLAGS_AVX512 & c.remove))
                        expect_arch = 3;
                else if (!(IMB_CPUFLAGS_AVX2 & c.remove))
                        expect_arch = 2;
                else if (!(IMB_CPUFLAGS_SSE & c.remove))
                        expect_arch = 1;
                else
                        expect_arch = 0;
                expect_fail = expect_arch == 0;
        }
        CbState st;
        int prior_arch = 0;
        void *prior_submit = nullptr;
        std::vector<MatJob *> parked;
        if (sigsetjmp(sp_jmp, 1) == 0) {
                sp_armed = 1;
                if (c.prior_cfg >= 0) {
                        if (!mgr_create(g, c.prior_cfg)) {
                                sp_armed = 0;
                                g_cpuid_remove = 0;
                                return v; // prior architecture itself unsupported under this mask: not a case
                        }
                        if (c.parked)
                                park_jobs(g, c.parked, 0xC08 + c.remove);
                        prior_arch = (int) g.m->used_arch;
                        prior_submit = (void *) g.m->submit_job;
                } else {
                        size_t sz = g.img->imb_get_mb_mgr_size();
                        g.mem = arena::alloc((uint32_t) sz, arena::PLACE_MID, 64, 0);
                        g.m = (IMB_MGR *) tc("imb_set_pointers_mb_mgr", g.img->imb_set_pointers_mb_mgr, g.mem.p, (uint64_t) 0, 1u);
                }
                tc("imb_self_test_set_cb", g.img->imb_self_test_set_cb, g.m, selftest_cb, &st);
                if (c.init_fn == 3)
                        tc("init_mb_mgr_auto", g.img->init_auto, g.m, (IMB_ARCH *) nullptr);
                else
                        tc("init_mb_mgr", g.img->init[c.init_fn], g.m);
                sp_armed = 0;
        } else {
                g_cpuid_remove = 0;
                bad("variant.init_crash", "initialisation crashed instead of failing cleanly");
                return v;
        }
        g_cpuid_remove = 0;
        int err = g.m->imb_errno;
        if (expect_fail) {
                if (err != IMB_ERR_MISSING_CPUFLAGS_INIT_MGR)
                        bad("variant.missing_flags_errno",
                            "error code is " + std::to_string(err) + " instead of IMB_ERR_MISSING_CPUFLAGS_INIT_MGR");
                if (!st.ev.empty())
                        bad("variant.ran_selftest", "the self-test ran (" + std::to_string(st.ev.size()) +
                                                            " callbacks) although required CPU features are missing");
                if (c.prior_cfg >= 0) {
                        if ((int) g.m->used_arch != prior_arch || (void *) g.m->submit_job != prior_submit)
                                bad("variant.state_changed", "a refused initialisation changed the manager's architecture / entry points");
                        else if (v.empty()) {
                                // the manager still works: parked jobs flush in order and complete
                                int n = 0;
                                IMB_JOB *j;
                                while ((j = L_flush_job(g.m)) != nullptr && n < 300) {
                                        if (j->status != IMB_STATUS_COMPLETED)
                                                bad("variant.after_refusal", "job flushed after a refused init is not COMPLETED");
                                        n++;
                                }
                                if (n != c.parked)
                                        bad("variant.after_refusal", "flushed " + std::to_string(n) + " jobs after a refused init, " +
                                                                             std::to_string(c.parked) + " were parked");
                        }
                }
        } else {
                if (err != 0)
                        bad("variant.init_errno", "initialisation failed with error " + std::to_string(err) + " although all required features are present");
                if ((int) g.m->used_arch != expect_arch)
                        bad("variant.auto_choice", "used_arch is " + std::to_string((int) g.m->used_arch) + ", expected " + std::to_string(expect_arch));
                if (!(g.m->features & IMB_FEATURE_SELF_TEST_PASS))
                        bad("variant.selftest", "self-test did not pass");
                // hidden optional features must not be reported as present
                if (g.m->features & c.remove)
                        bad("variant.features", "manager reports features that CPUID does not");
        }
        return v;
}

// ---------------------------------------------------------------- generic special driver
struct SpecialOut {
        uint64_t evals = 0;
        std::set<std::string> distinct;
        std::vector<std::string> samples;
        int viol = 0;
        std::map<std::string, uint64_t> counters;
};

void
report_special(const BatchCfg &cfg, const std::string &case_json, const std::vector<Violation> &vs, SpecialOut &so,
               const std::vector<KnownFinding> &known)
{
        so.evals++;
        so.distinct.insert(case_json);
        if (so.samples.size() < 3 && (so.evals % 97 == 1))
                so.samples.push_back(case_json);
        std::set<std::string> seen;
        for (auto &v : vs) {
                if (v.prop != cfg.prop) {
                        printf("NOTE other-property=%s oracle=%s %s\n", v.prop.c_str(), v.oracle.c_str(), v.detail.c_str());
                        continue;
                }
                if (seen.count(v.oracle))
                        continue;
                seen.insert(v.oracle);
                if (const KnownFinding *k = match_known(known, v)) {
                        printf("KNOWN-FINDING: property=%s %s\n", v.prop.c_str(), k->what.c_str());
                        continue;
                }
                so.viol++;
                if (so.viol > 12)
                        continue;
                char path[512];
                snprintf(path, sizeof path, "%s/replays/%s-special-%llu-%s.json", out_dir().c_str(), cfg.prop.c_str(),
                         (unsigned long long) so.evals, v.oracle.c_str());
                JW w;
                w.obj();
                w.str("property", v.prop).str("oracle", v.oracle).str("key", v.key).str("detail", v.detail);
                w.raw("case", case_json);
                w.end_obj();
                write_file(path, w.out);
                printf("VIOLATION property=%s replay=%s\n  oracle=%s %s\n", v.prop.c_str(), path, v.oracle.c_str(), v.detail.c_str());
        }
}

void
write_special_evidence(const BatchCfg &cfg, const SpecialOut &so, const std::string &rule, bool exhaustive, double wall,
                       const std::vector<std::string> &assumptions, const std::string &extra)
{
        JW w;
        w.obj();
        w.str("property_id", cfg.prop).str("tier", cfg.tier).num("seed", (int64_t) cfg.seed).str("level", cfg.level);
        w.obj("coverage");
        w.num("evaluations", (int64_t) so.evals).num("distinct_nontrivial", (int64_t) so.distinct.size()).str("rule", rule);
        w.arr("samples");
        for (auto &s : so.samples)
                w.raw(nullptr, s);
        w.end_arr();
        w.boolean("exhaustive", exhaustive);
        w.dbl("runs_per_hour", wall > 0 ? (double) so.evals / wall * 3600 : 0);
        w.str("simulated_time", "none: the system has no clock; one evaluation = one initialisation (plus its self-test) under the injected fault");
        w.obj("counters");
        for (auto &kv : so.counters)
                w.num(kv.first.c_str(), (int64_t) kv.second);
        w.end_obj();
        w.str("components_real", "all library code incl. the self-test, linked from the archive rebuilt from /repo");
        w.str("components_stubbed", extra);
        w.end_obj();
        w.arr("assumptions");
        for (auto &a : assumptions)
                w.astr(a);
        w.end_arr();
        w.dbl("wall_s", wall).num("violations", so.viol);
        w.end_obj();
        mkdir((out_dir() + "/evidence").c_str(), 0755);
        mkdir((out_dir() + "/replays").c_str(), 0755);
        write_file(out_dir() + "/evidence/" + cfg.prop + ".json", w.out);
}

int
check_c20(BatchCfg &cfg)
{
        const double t0 = now_s();
        const bool th = cfg.tier == "thorough";
        cfg.level = "fault_enumeration";
        std::vector<KnownFinding> known = load_known(verif_dir() + "/known_findings.json");
        SpecialOut so;
        Rng r(cfg.seed * 7919 + 20);
        arena::init();
        sp_handlers();
        for (int cfg_i = 0; cfg_i < NCFG; cfg_i++) {
                for (int via_auto = 0; via_auto < 2; via_auto++) {
                        // auto cannot apply SHANI/GFNI-off selection differently: flags are honoured the same way
                        StCase base;
                        base.cfg = cfg_i;
                        base.via_auto = via_auto;
                        std::vector<Entry> ents;
                        auto vs = eval_st(base, &ents);
                        report_special(cfg, st_case_json(base), vs, so, known);
                        so.counters["clean_inits"]++;
                        int n = (int) ents.size();
                        so.counters["self_test_entries_seen_max"] = std::max<uint64_t>(so.counters["self_test_entries_seen_max"], (uint64_t) n);
                        if (n == 0)
                                continue;
                        // exhaustive singles
                        for (int i = 0; i < n; i++) {
                                StCase c = base;
                                c.corrupt = { i };
                                report_special(cfg, st_case_json(c), eval_st(c), so, known);
                                so.counters["single_corruptions"]++;
                        }
                        // pairs: exhaustive in thorough, sampled in quick
                        int npairs = th ? n * (n - 1) / 2 : 12;
                        if (th) {
                                if (via_auto == 0 || cfg_i % 4 == 0)
                                        for (int i = 0; i < n; i++)
                                                for (int j = i + 1; j < n; j++) {
                                                        StCase c = base;
                                                        c.corrupt = { i, j };
                                                        report_special(cfg, st_case_json(c), eval_st(c), so, known);
                                                        so.counters["pair_corruptions"]++;
                                                }
                        } else
                                for (int k = 0; k < npairs; k++) {
                                        StCase c = base;
                                        int i = (int) r.below((uint32_t) n), j = (int) r.below((uint32_t) n);
                                        if (i == j)
                                                continue;
                                        c.corrupt = { std::min(i, j), std::max(i, j) };
                                        report_special(cfg, st_case_json(c), eval_st(c), so, known);
                                        so.counters["pair_corruptions"]++;
                                }
                        // random larger subsets, all, and out-of-range index (no corruption happens)
                        for (int k = 0; k < (th ? 20 : 4); k++) {
                                StCase c = base;
                                for (int i = 0; i < n; i++)
                                        if (r.chance(0.3))
                                                c.corrupt.push_back(i);
                                report_special(cfg, st_case_json(c), eval_st(c), so, known);
                                so.counters["subset_corruptions"]++;
                        }
                        {
                                StCase c = base;
                                for (int i = 0; i < n; i++)
                                        c.corrupt.push_back(i);
                                report_special(cfg, st_case_json(c), eval_st(c), so, known);
                                so.counters["all_corrupted"]++;
                        }
                        // the callback registered once must serve later initialisations too: clean, and every single entry
                        for (int i = -1; i < n; i++) {
                                if (!th && i >= 0 && (i % 4) != (int) (cfg_i % 4))
                                        continue; // quick: a quarter of the entries per configuration
                                StCase c = base;
                                c.persist = 1;
                                if (i >= 0)
                                        c.corrupt = { i };
                                report_special(cfg, st_case_json(c), eval_st(c), so, known);
                                so.counters["reinit_with_callback_registered_earlier"]++;
                        }
                        // F3: corrupted init in the middle of use, jobs parked
                        for (int k = 0; k < (th ? 8 : 2); k++) {
                                StCase c = base;
                                c.parked = 1 + (int) r.below(6);
                                c.corrupt = { (int) r.below((uint32_t) n) };
                                if (k & 1)
                                        c.corrupt.clear();
                                report_special(cfg, st_case_json(c), eval_st(c), so, known);
                                so.counters["init_with_jobs_parked"]++;
                        }
                }
        }
        write_special_evidence(
                cfg, so,
                "One evaluation = one manager initialisation with a set S of self-test entries corrupted through the "
                "imb_self_test_set_cb() CORRUPT callback (fault F6). Enumerated: 12 variant configurations x {explicit init, "
                "init_mb_mgr_auto under a CPUID mask} x {no corruption, every single entry (exhaustive), pairs (sampled in quick, "
                "all in thorough), random subsets, all entries} plus inits injected while jobs are parked (F3). distinct = "
                "distinct (configuration, init function, parked, S) records; all are non-trivial (each runs the whole self-test).",
                true, now_s() - t0,
                { "README 'Self-Test' list is the reference for documented algorithms", "variants AVX2 t3/t4 not executable on this host" },
                "mbcpuid is wrapped at link time (real CPUID with feature bits hidden) to steer init_mb_mgr_auto");
        printf("C20 %s: %llu initialisations, %zu distinct cases, %.1f s, %d violation(s)\n", cfg.tier.c_str(),
               (unsigned long long) so.evals, so.distinct.size(), now_s() - t0, so.viol);
        return so.viol ? 1 : 0;
}

int
check_c08_w2(BatchCfg &cfg, SpecialOut &so)
{
        const bool th = cfg.tier == "thorough";
        std::vector<KnownFinding> known = load_known(verif_dir() + "/known_findings.json");
        Rng r(cfg.seed * 104729 + 8);
        arena::init();
        sp_handlers();
        for (int fn = 0; fn < 4; fn++) {
                uint64_t req = fn == 3 ? (uint64_t) IMB_CPUFLAGS_AVX512 : required_features(fn);
                std::vector<uint64_t> masks;
                for (int b = 0; b < 40; b++)
                        if (req & (1ull << b))
                                masks.push_back(1ull << b); // each single required feature
                for (int k = 0; k < (th ? 60 : 12); k++) {
                        uint64_t m = 0;
                        for (int b = 0; b < 40; b++)
                                if ((req & (1ull << b)) && r.chance(0.25))
                                        m |= 1ull << b;
                        if (m)
                                masks.push_back(m);
                }
                // optional features only: init must still succeed (with a lower type)
                masks.push_back(IMB_FEATURE_SHANI);
                masks.push_back(IMB_FEATURE_GFNI);
                masks.push_back(IMB_FEATURE_VAES | IMB_FEATURE_VPCLMULQDQ);
                masks.push_back(IMB_FEATURE_AVX512_IFMA);
                masks.push_back(0);
                for (uint64_t m : masks) {
                        CpuCase c;
                        c.init_fn = fn;
                        c.remove = m;
                        report_special(cfg, cpu_case_json(c), eval_cpu(c), so, known);
                        so.counters["cpuid_mask_fresh_manager"]++;
                        // previously initialised for each arch that is still supported under the mask
                        for (int pa = 0; pa < 3; pa++) {
                                if (required_features(pa) & m)
                                        continue;
                                CpuCase d = c;
                                d.prior_cfg = pa * 4 + (int) r.below(4);
                                d.parked = (int) r.below(5);
                                report_special(cfg, cpu_case_json(d), eval_cpu(d), so, known);
                                so.counters["cpuid_mask_reinit_of_working_manager"]++;
                        }
                }
        }
        return so.viol;
}

} // namespace

CaseSource source_for(const std::string &profile, const std::string &prop, int tier);
int c19_entry(BatchCfg &cfg);
int c19_replay(const JVal &cs);

int
special_check(const std::string &prop, BatchCfg &cfg, bool &handled)
{
        handled = false;
        if (prop == "C20") {
                handled = true;
                return check_c20(cfg);
        }
        if (prop == "C19") {
                handled = true;
                return c19_entry(cfg);
        }
        if (prop == "C08W2") {
                handled = true;
                SpecialOut so;
                cfg.prop = "C08";
                int n = check_c08_w2(cfg, so);
                printf("C08 (cpu-feature loss): %llu initialisations, %d violation(s)\n", (unsigned long long) so.evals, n);
                return n ? 1 : 0;
        }
        return 0;
}

// used by the C08 registry entry: run W2 first, return its evidence fragment
int
c08_w2_fragment(BatchCfg cfg, std::string &json_fragment)
{
        SpecialOut so;
        int n = check_c08_w2(cfg, so);
        JW w;
        w.obj();
        w.num("cpu_feature_loss_initialisations", (int64_t) so.evals).num("distinct_cases", (int64_t) so.distinct.size());
        w.obj("counters");
        for (auto &kv : so.counters)
                w.num(kv.first.c_str(), (int64_t) kv.second);
        w.end_obj();
        w.arr("samples");
        for (auto &s : so.samples)
                w.raw(nullptr, s);
        w.end_arr();
        w.str("rule", "fault F5: for each init function, each single required CPU feature hidden (exhaustive) plus seeded subsets, on a "
                      "fresh manager and on a manager already initialised for a still-supported architecture with jobs parked; optional "
                      "features hidden must still initialise");
        w.end_obj();
        json_fragment = w.out;
        return n;
}

// replay of a special case record (fresh process)
int
special_replay(const JVal &root, bool verbose)
{
        JP cs = root.get("case");
        if (!cs)
                return 2;
        std::string sp = cs->gets("special");
        std::string want = root.gets("oracle");
        arena::init();
        sp_handlers();
        std::vector<Violation> vs;
        if (sp == "C19")
                return c19_replay(*cs);
        if (sp == "C20") {
                StCase c;
                c.cfg = (int) cs->geti("cfg");
                c.via_auto = (int) cs->geti("via_auto");
                c.parked = (int) cs->geti("parked");
                c.persist = (int) cs->geti("persist");
                if (JP a = cs->get("corrupt"))
                        for (auto &x : a->a)
                                c.corrupt.push_back((int) x->i);
                vs = eval_st(c);
        } else if (sp == "C08") {
                CpuCase c;
                c.init_fn = (int) cs->geti("init_fn");
                c.remove = cs->getu("remove");
                c.prior_cfg = (int) cs->geti("prior_cfg", -1);
                c.parked = (int) cs->geti("parked");
                vs = eval_cpu(c);
        } else
                return 2;
        int rc = 0;
        for (auto &v : vs) {
                if (verbose)
                        printf("violation: property=%s oracle=%s\n   %s\n", v.prop.c_str(), v.oracle.c_str(), v.detail.c_str());
                if (want.empty() || v.oracle == want)
                        rc = 1;
        }
        printf(rc ? "REPRODUCED\n" : "NOT-REPRODUCED\n");
        return rc;
}

// C14: imb_get_strerror() is total (finite enumeration of its integer argument)
int
c14_strerror_fragment(std::string &json_fragment)
{
        int bad = 0;
        uint64_t n = 0, distinct = 0;
        std::set<std::string> msgs;
        auto probe = [&](int e) {
                const char *s = (const char *) tc("imb_get_strerror", g_img.imb_get_strerror, e);
                n++;
                if (!s) {
                        if (bad++ < 3)
                                printf("VIOLATION property=C14 replay=none\n  oracle=errno.strerror imb_get_strerror(%d) returned NULL\n", e);
                        return;
                }
                size_t len = strnlen(s, 4096);
                if (len == 0 || len >= 4096) {
                        if (bad++ < 3)
                                printf("VIOLATION property=C14 replay=none\n  oracle=errno.strerror imb_get_strerror(%d) returned an empty or unterminated string\n", e);
                        return;
                }
                msgs.insert(s);
        };
        for (int e = -70000; e <= 70000; e++)
                probe(e);
        probe(INT32_MIN);
        probe(INT32_MAX);
        probe(INT32_MIN + 1);
        probe(INT32_MAX - 1);
        distinct = msgs.size();
        JW w;
        w.obj();
        w.num("strerror_arguments_enumerated", (int64_t) n).num("distinct_messages", (int64_t) distinct);
        w.str("range", "[-70000,70000] plus INT_MIN, INT_MIN+1, INT_MAX-1, INT_MAX (covers errno values, IMB_ERR_MIN..IMB_ERR_MAX and beyond)");
        w.end_obj();
        json_fragment = w.out;
        return bad;
}

// ---------------------------------------------------------------- C19: SAFE_LOOKUP trace equality
#include "tracer.h"
#include <sys/mman.h>
#include <sys/wait.h>
#include <dlfcn.h>
namespace {

struct TrItem {
        int cfg;
        int alg;    // 0 DES 1 3DES 2 DOCSIS-DES 3 KASUMI-F8 4 KASUMI-F9 5 SNOW3G-UEA2 6 SNOW3G-UIA2
        int dir;    // 1 enc 2 dec
        int entry;  // 0 job API, 1 direct function
        uint64_t key_a, key_b;
        int key_kind; // 0 random pair, 1 all-zero vs all-one keys, 2 single-bit difference
};
const char *tr_alg_names[] = { "DES-CBC", "3DES-CBC", "DOCSIS-DES", "KASUMI-F8", "KASUMI-F9", "SNOW3G-UEA2", "SNOW3G-UIA2" };

JobSpec
tr_spec(const TrItem &it, uint64_t key_seed)
{
        JobSpec s;
        s.dir = (uint8_t) it.dir;
        s.seed = 0x19C19ull + (uint64_t) it.alg; // message, IV: identical for both keys
        s.key_seed = key_seed;
        s.inplace = 0;
        switch (it.alg) {
        case 0: s.cipher = IMB_CIPHER_DES; s.key_len = 8; s.iv_len = 8; s.c_len = 16; break;
        case 1: s.cipher = IMB_CIPHER_DES3; s.key_len = 24; s.iv_len = 8; s.c_len = 16; break;
        case 2: s.cipher = IMB_CIPHER_DOCSIS_DES; s.key_len = 8; s.iv_len = 8; s.c_len = 13; break;
        case 3: s.cipher = IMB_CIPHER_KASUMI_UEA1_BITLEN; s.key_len = 16; s.iv_len = 8; s.c_len = 128; break;
        case 4: s.hash = IMB_AUTH_KASUMI_UIA1; s.order = IMB_ORDER_HASH_CIPHER; s.h_len = 17; s.tag_len = 4; break;
        case 5: s.cipher = IMB_CIPHER_SNOW3G_UEA2_BITLEN; s.key_len = 16; s.iv_len = 16; s.c_len = 128; break;
        case 6: s.hash = IMB_AUTH_SNOW3G_UIA2_BITLEN; s.order = IMB_ORDER_HASH_CIPHER; s.h_len = 128; s.tag_len = 4; s.aiv_len = 16; break;
        }
        return s;
}

// overwrite the raw key bytes (mat derives them from key_seed): structured keys need a hook; we use seeds that
// mat_raw_keys maps to the wanted pattern only for random keys. For structured pairs the key *schedule objects*
// are rebuilt from explicit key bytes below.

bool
tr_one(const TrItem &it, uint64_t key_seed, Trace &tr, std::string &err)
{
        LibImage *A = image_copy(0);
        if (!A) {
                err = "library copy not available";
                return false;
        }
        arena::reset();
        Mgr g;
        if (!mgr_create(g, it.cfg, A)) {
                err = "manager init failed";
                return false;
        }
        JobSpec s = tr_spec(it, key_seed);
        MatJob mj;
        materialize(mj, s, g.m, A);
        // regions: non-executable segments of the library copy, key material, IV, source, destination
        trace_regions_clear();
        {
                FILE *f = fopen("/proc/self/maps", "r");
                char line[1024];
                int id = 1;
                while (f && fgets(line, sizeof line, f)) {
                        if (!strstr(line, "libimb_A.so"))
                                continue;
                        unsigned long lo, hi;
                        char perms[8];
                        if (sscanf(line, "%lx-%lx %7s", &lo, &hi, perms) != 3)
                                continue;
                        if (perms[2] == 'x')
                                continue;
                        trace_region_add((void *) lo, hi - lo, (perms[0] == 'r' ? PROT_READ : 0) | (perms[1] == 'w' ? PROT_WRITE : 0), id++);
                }
                if (f)
                        fclose(f);
        }
        static const int objs[] = { O_KEYC, O_KEYC2, O_KEYA, O_IV, O_AIV, O_SRC, O_DST, O_TAG };
        for (int o : objs)
                if (mj.obj[o].valid() && mj.obj[o].len)
                        trace_region_add(mj.obj[o].p, mj.obj[o].len, PROT_READ | PROT_WRITE, 20 + o);
        if (mj.extra[0].valid())
                trace_region_add(mj.extra[0].p, mj.extra[0].len, PROT_READ | PROT_WRITE, 40);
        const uint64_t MAXS = 6000000;
        bool ok = true;
        uint64_t ret = 0;
        if (it.entry == 0) {
                IMB_JOB *j = g.m->get_next_job(g.m);
                *j = mj.tmpl;
                ok = trace_call(tr, (void *) g.m->submit_job, (uint64_t) (uintptr_t) g.m, 0, 0, 0, 0, 0, MAXS, &ret);
                if (ok && !ret)
                        ok = trace_call(tr, (void *) g.m->flush_job, (uint64_t) (uintptr_t) g.m, 0, 0, 0, 0, 0, MAXS, &ret);
                if (ok && (!ret || ((IMB_JOB *) ret)->status != IMB_STATUS_COMPLETED)) {
                        err = "traced job did not complete";
                        ok = false;
                }
        } else {
                uint64_t iv64 = 0;
                if (mj.obj[O_IV].valid() && mj.obj[O_IV].len >= 8)
                        memcpy(&iv64, mj.obj[O_IV].p, 8);
                switch (it.alg) {
                case 3:
                        ok = trace_call(tr, (void *) g.m->f8_1_buffer, (uint64_t) (uintptr_t) mj.obj[O_KEYC].p, iv64, (uint64_t) (uintptr_t) mj.src,
                                        (uint64_t) (uintptr_t) mj.out, s.c_len / 8, 0, MAXS, &ret);
                        break;
                case 4:
                        ok = trace_call(tr, (void *) g.m->f9_1_buffer, (uint64_t) (uintptr_t) mj.obj[O_KEYA].p, (uint64_t) (uintptr_t) mj.src,
                                        s.h_len, (uint64_t) (uintptr_t) mj.obj[O_TAG].p, 0, 0, MAXS, &ret);
                        break;
                case 5:
                        ok = trace_call(tr, (void *) g.m->snow3g_f8_1_buffer, (uint64_t) (uintptr_t) mj.obj[O_KEYC].p,
                                        (uint64_t) (uintptr_t) mj.obj[O_IV].p, (uint64_t) (uintptr_t) mj.src, (uint64_t) (uintptr_t) mj.out,
                                        s.c_len / 8, 0, MAXS, &ret);
                        break;
                case 6:
                        ok = trace_call(tr, (void *) g.m->snow3g_f9_1_buffer, (uint64_t) (uintptr_t) mj.obj[O_KEYA].p,
                                        (uint64_t) (uintptr_t) mj.obj[O_AIV].p, (uint64_t) (uintptr_t) mj.src, (uint64_t) s.h_len,
                                        (uint64_t) (uintptr_t) mj.obj[O_TAG].p, 0, MAXS, &ret);
                        break;
                default: err = "no direct entry point"; ok = false; break;
                }
        }
        if (!ok && err.empty())
                err = "trace exceeded the step budget";
        mat_release(mj);
        return ok;
}

std::string
sym_of(uint64_t rip)
{
        Dl_info di;
        char b[256];
        if (dladdr((void *) (uintptr_t) rip, &di) && di.dli_sname) {
                snprintf(b, sizeof b, "%s+0x%llx", di.dli_sname, (unsigned long long) (rip - (uint64_t) (uintptr_t) di.dli_saddr));
                return b;
        }
        if (dladdr((void *) (uintptr_t) rip, &di) && di.dli_fbase) {
                snprintf(b, sizeof b, "image+0x%llx", (unsigned long long) (rip - (uint64_t) (uintptr_t) di.dli_fbase));
                return b;
        }
        snprintf(b, sizeof b, "0x%llx", (unsigned long long) rip);
        return b;
}

std::string
tr_item_json(const TrItem &it)
{
        JW w;
        w.obj();
        w.str("special", "C19").num("cfg", it.cfg).str("variant", cfg_name(it.cfg)).num("alg", it.alg).str("algorithm", tr_alg_names[it.alg]);
        w.num("dir", it.dir).num("entry", it.entry).str("entry_point", it.entry ? "direct function" : "job API").unum("key_a", it.key_a);
        w.unum("key_b", it.key_b).num("key_kind", it.key_kind);
        w.end_obj();
        return w.out;
}

// returns "" when the two traces agree; otherwise a description. stats gets "steps accesses"
std::string
eval_trace_pair(const TrItem &it, uint64_t *steps, uint64_t *accesses)
{
        Trace a, b;
        std::string err;
        if (!tr_one(it, it.key_a, a, err))
                return "INTERNAL " + err;
        if (!tr_one(it, it.key_b, b, err))
                return "INTERNAL " + err;
        if (steps)
                *steps = a.steps;
        if (accesses)
                *accesses = a.data_accesses;
        char m[512];
        if (a.rip_hash != b.rip_hash || a.steps != b.steps) {
                size_t i = 0;
                while (i < a.rips.size() && i < b.rips.size() && a.rips[i] == b.rips[i])
                        i++;
                snprintf(m, sizeof m,
                         "instruction sequences differ between two keys (%llu vs %llu instructions); first difference at step %zu: %s vs %s "
                         "(previous instruction %s)",
                         (unsigned long long) a.steps, (unsigned long long) b.steps, i, i < a.rips.size() ? sym_of(a.rips[i]).c_str() : "-",
                         i < b.rips.size() ? sym_of(b.rips[i]).c_str() : "-", i ? sym_of(a.rips[i - 1]).c_str() : "-");
                return m;
        }
        if (a.addr_hash != b.addr_hash || a.data_accesses != b.data_accesses) {
                size_t i = 0;
                while (i < a.addrs.size() && i < b.addrs.size() && a.addrs[i] == b.addrs[i])
                        i++;
                i &= ~(size_t) 1;
                snprintf(m, sizeof m,
                         "data addresses differ between two keys: access #%zu by instruction %s touches region %llu offset 0x%llx with one key "
                         "and region %llu offset 0x%llx with the other",
                         i / 2, i < a.addrs.size() ? sym_of(a.addrs[i]).c_str() : "-",
                         i + 1 < a.addrs.size() ? (unsigned long long) (a.addrs[i + 1] >> 48) : 0ull,
                         i + 1 < a.addrs.size() ? (unsigned long long) (a.addrs[i + 1] & 0xFFFFFFFFFFFFull) : 0ull,
                         i + 1 < b.addrs.size() ? (unsigned long long) (b.addrs[i + 1] >> 48) : 0ull,
                         i + 1 < b.addrs.size() ? (unsigned long long) (b.addrs[i + 1] & 0xFFFFFFFFFFFFull) : 0ull);
                return m;
        }
        return "";
}

int
check_c19(BatchCfg &cfg)
{
        const double t0 = now_s();
        const bool th = cfg.tier == "thorough";
        cfg.level = "exploration";
        arena::init();
        std::vector<KnownFinding> known = load_known(verif_dir() + "/known_findings.json");
        std::vector<TrItem> items;
        Rng r(cfg.seed * 1000003 + 19);
        const int cfgs[2] = { 1, 5 }; // SSE type 1, AVX2 type 1: the variants named by the property
        const int pairs = th ? 18 : 1;
        for (int ci = 0; ci < 2; ci++)
                for (int alg = 0; alg < 7; alg++)
                        for (int entry = 0; entry < 2; entry++) {
                                if (entry == 1 && alg < 3)
                                        continue; // DES family has no direct single-buffer entry point
                                for (int dir = 1; dir <= ((alg < 3 && th) ? 2 : 1); dir++)
                                        // quick: one random pair, and for the DES family two pairs with equal key parts
                                        for (int p = 0; p < (th ? pairs : (alg < 3 ? 3 : 1)); p++) {
                                                TrItem it;
                                                it.cfg = cfgs[ci];
                                                it.alg = alg;
                                                it.dir = dir;
                                                it.entry = entry;
                                                it.key_kind = th ? p % 6 : (p == 0 ? 0 : p + 3);
                                                it.key_a = r.next();
                                                it.key_b = r.next();
                                                if (it.key_kind == 1) { // all-zero against all-ones
                                                        it.key_a = 0x5EED0000;
                                                        it.key_b = 0x5EED0001;
                                                } else if (it.key_kind == 2) { // single set bit against random
                                                        it.key_a = 0x5EED1000 + r.below(128);
                                                } else if (it.key_kind >= 3) { // equal key parts against random: all, K1=K2, K2=K3
                                                        it.key_a = 0x5EED0000 + 0x1000 * (uint64_t) (it.key_kind - 1) + r.below(0x1000);
                                                }
                                                items.push_back(it);
                                        }
                        }
        // run the pairs in forked children (each trace is seconds of single-stepping)
        mkdir((out_dir() + "/evidence").c_str(), 0755);
        mkdir((out_dir() + "/replays").c_str(), 0755);
        mkdir((verif_dir() + "/.cache").c_str(), 0755);
        mkdir((verif_dir() + "/.cache/tmp").c_str(), 0755);
        size_t next = 0, running = 0;
        std::map<pid_t, size_t> who;
        std::vector<std::string> results(items.size());
        std::vector<std::pair<uint64_t, uint64_t>> stats(items.size());
        const pid_t parent = getpid();
        auto result_path = [&](size_t i) { return verif_dir() + "/.cache/tmp/c19-" + std::to_string(parent) + "-" + std::to_string(i); };
        while (next < items.size() || running) {
                while (next < items.size() && running < (size_t) cfg.workers) {
                        fflush(stdout);
                        pid_t pid = fork();
                        if (pid == 0) {
                                uint64_t st = 0, ac = 0;
                                std::string res = eval_trace_pair(items[next], &st, &ac);
                                write_file(result_path(next), std::to_string(st) + " " + std::to_string(ac) + "\n" + res);
                                _exit(0);
                        }
                        who[pid] = next++;
                        running++;
                }
                int stt = 0;
                pid_t p = wait(&stt);
                if (p > 0 && who.count(p)) {
                        size_t i = who[p];
                        running--;
                        std::string txt;
                        if (!WIFEXITED(stt) || WEXITSTATUS(stt) != 0 || !read_file(result_path(i), txt))
                                results[i] = "INTERNAL tracer child died";
                        else {
                                unsigned long long s1 = 0, s2 = 0;
                                sscanf(txt.c_str(), "%llu %llu", &s1, &s2);
                                stats[i] = { s1, s2 };
                                size_t nl = txt.find('\n');
                                results[i] = nl == std::string::npos ? "" : txt.substr(nl + 1);
                        }
                        unlink(result_path(i).c_str());
                }
        }
        int viol = 0, internal = 0;
        uint64_t total_steps = 0, total_acc = 0;
        std::set<std::string> distinct;
        std::vector<std::string> samples;
        for (size_t i = 0; i < items.size(); i++) {
                total_steps += stats[i].first * 2;
                total_acc += stats[i].second * 2;
                std::string cj = tr_item_json(items[i]);
                distinct.insert(cj);
                if (samples.size() < 3 && (i % 7 == 0))
                        samples.push_back(cj);
                if (results[i].empty())
                        continue;
                if (results[i].compare(0, 8, "INTERNAL") == 0) {
                        internal++;
                        printf("INTERNAL: %s [%s %s %s]\n", results[i].c_str(), cfg_name(items[i].cfg), tr_alg_names[items[i].alg],
                               items[i].entry ? "direct" : "job API");
                        continue;
                }
                Violation v;
                v.prop = "C19";
                v.oracle = "trace.differs";
                v.detail = results[i] + " [" + cfg_name(items[i].cfg) + " " + tr_alg_names[items[i].alg] + (items[i].dir == 2 ? " decrypt" : "") +
                           (items[i].entry ? " direct function" : " job API") + "]";
                v.key = std::string("variant=") + cfg_name(items[i].cfg) + ";alg=" + tr_alg_names[items[i].alg];
                if (const KnownFinding *k = match_known(known, v)) {
                        printf("KNOWN-FINDING: property=C19 %s\n", k->what.c_str());
                        continue;
                }
                viol++;
                char path[512];
                snprintf(path, sizeof path, "%s/replays/C19-special-%zu-trace.differs.json", out_dir().c_str(), i);
                JW w;
                w.obj();
                w.str("property", "C19").str("oracle", v.oracle).str("key", v.key).str("detail", v.detail);
                w.raw("case", cj);
                w.end_obj();
                write_file(path, w.out);
                printf("VIOLATION property=C19 replay=%s\n  oracle=trace.differs %s\n", path, v.detail.c_str());
        }
        const double wall = now_s() - t0;
        JW w;
        w.obj();
        w.str("property_id", "C19").str("tier", cfg.tier).num("seed", (int64_t) cfg.seed).str("level", cfg.level);
        w.obj("coverage");
        w.num("evaluations", (int64_t) items.size()).num("distinct_nontrivial", (int64_t) distinct.size());
        w.str("rule", "One evaluation = one pair of single-stepped executions of the same work item (same message, IV, lengths, buffer "
                      "addresses) with two different keys; compared: the complete sequence of instruction addresses and the sequence of "
                      "(instruction, data address) pairs for every access to the library's tables/data, the key schedule, IV, source and "
                      "destination. Items = {SSE type 1, AVX2 type 1} x {DES, 3DES, DOCSIS-DES, KASUMI F8/F9, SNOW3G UEA2/UIA2} x {job API, "
                      "direct function where one exists} x key pairs; all are non-trivial (each traces the whole algorithm).");
        w.arr("samples");
        for (auto &s : samples)
                w.raw(nullptr, s);
        w.end_arr();
        w.num("instructions_single_stepped", (int64_t) total_steps).num("data_accesses_recorded", (int64_t) total_acc);
        w.dbl("runs_per_hour", wall > 0 ? (double) items.size() / wall * 3600 : 0);
        w.str("simulated_time", "none; the step counter is the number of retired instructions");
        w.str("components_real", "the library code of the shared copy libimb_A.so built from /repo (identical objects to the static archive)");
        w.str("components_stubbed", "none");
        w.end_obj();
        w.arr("assumptions");
        w.astr("stack accesses and accesses to the manager structure are not traced (only library tables/data, key schedule, IV, source, destination)");
        w.astr("sampled key pairs: a key-dependent branch or address that both sampled keys happen to take identically is not seen");
        w.astr("only the variants named by the property (SSE type 1, AVX2 type 1)");
        w.end_arr();
        w.dbl("wall_s", wall).num("violations", viol);
        w.end_obj();
        write_file(out_dir() + "/evidence/C19.json", w.out);
        printf("C19 %s: %zu key pairs traced, %llu instructions single-stepped, %llu data accesses recorded, %.1f s, %d violation(s)\n",
               cfg.tier.c_str(), items.size(), (unsigned long long) total_steps, (unsigned long long) total_acc, wall, viol);
        if (viol)
                return 1;
        return internal ? 2 : 0;
}
} // namespace

int
c19_entry(BatchCfg &cfg)
{
        return check_c19(cfg);
}

int
c19_replay(const JVal &cs)
{
        TrItem it;
        it.cfg = (int) cs.geti("cfg");
        it.alg = (int) cs.geti("alg");
        it.dir = (int) cs.geti("dir", 1);
        it.entry = (int) cs.geti("entry");
        it.key_a = cs.getu("key_a");
        it.key_b = cs.getu("key_b");
        it.key_kind = (int) cs.geti("key_kind");
        arena::init();
        uint64_t st = 0, ac = 0;
        std::string r = eval_trace_pair(it, &st, &ac);
        if (r.empty()) {
                printf("NOT-REPRODUCED (%llu instructions, %llu data accesses per trace)\n", (unsigned long long) st, (unsigned long long) ac);
                return 0;
        }
        printf("REPRODUCED %s\n", r.c_str());
        return 1;
}

// Checks that are not plain batches of plans (fault enumerations etc.). Filled in later.
#include "driver.h"
int
special_check(const std::string &prop, BatchCfg &cfg, bool &handled)
{
        (void) prop;
        (void) cfg;
        handled = false;
        return 0;
}

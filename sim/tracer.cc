// Deterministic instruction-level tracer (DESIGN.md C19): runs one library call
// with the trap flag set, recording the address of every retired instruction,
// and with selected data regions made inaccessible so that every instruction
// touching them faults once and its (instruction, data address) pair is
// recorded; the page is opened for that one instruction and closed again at
// the next single-step trap.
#include "tracer.h"
#include <signal.h>
#include <ucontext.h>
#include <sys/mman.h>
#include <string.h>
#include <stdlib.h>
#include <unistd.h>

namespace {

struct Region {
        uintptr_t lo, hi;
        int prot;
        int id;
};
Region g_reg[64];
int g_nreg = 0;
Trace *g_tr = nullptr;
uintptr_t g_open[8]; // pages opened for the current instruction
int g_open_prot[8];
int g_nopen = 0;
volatile sig_atomic_t g_tracing = 0;
uint64_t g_max_steps = 0;
bool g_overflow = false;

inline void
mixin(uint64_t &h, uint64_t v)
{
        h ^= v + 0x9E3779B97F4A7C15ull + (h << 6) + (h >> 2);
        h *= 0xff51afd7ed558ccdull;
}

void
on_trap(int, siginfo_t *, void *uc_)
{
        ucontext_t *uc = (ucontext_t *) uc_;
        if (!g_tracing) {
                uc->uc_mcontext.gregs[REG_EFL] &= ~0x100ll;
                return;
        }
        // close the pages that were opened for the instruction that just retired
        for (int i = 0; i < g_nopen; i++)
                mprotect((void *) g_open[i], 4096, PROT_NONE);
        g_nopen = 0;
        uint64_t rip = (uint64_t) uc->uc_mcontext.gregs[REG_RIP];
        Trace &t = *g_tr;
        t.steps++;
        mixin(t.rip_hash, rip);
        if (t.rips.size() < t.keep)
                t.rips.push_back(rip);
        if (t.steps >= g_max_steps) {
                // runaway: stop stepping, let the call finish at full speed
                g_overflow = true;
                g_tracing = 0;
                uc->uc_mcontext.gregs[REG_EFL] &= ~0x100ll;
                for (int i = 0; i < g_nreg; i++)
                        mprotect((void *) g_reg[i].lo, g_reg[i].hi - g_reg[i].lo, g_reg[i].prot);
        }
}

void
on_segv(int, siginfo_t *si, void *uc_)
{
        ucontext_t *uc = (ucontext_t *) uc_;
        uintptr_t a = (uintptr_t) si->si_addr;
        if (g_tracing)
                for (int i = 0; i < g_nreg; i++)
                        if (a >= g_reg[i].lo && a < g_reg[i].hi) {
                                uint64_t rip = (uint64_t) uc->uc_mcontext.gregs[REG_RIP];
                                Trace &t = *g_tr;
                                t.data_accesses++;
                                mixin(t.addr_hash, rip);
                                mixin(t.addr_hash, ((uint64_t) g_reg[i].id << 48) | (uint64_t) (a - g_reg[i].lo));
                                if (t.addrs.size() < t.keep) {
                                        t.addrs.push_back(rip);
                                        t.addrs.push_back(((uint64_t) g_reg[i].id << 48) | (uint64_t) (a - g_reg[i].lo));
                                }
                                uintptr_t pg = a & ~(uintptr_t) 4095;
                                if (g_nopen < 8) {
                                        g_open[g_nopen] = pg;
                                        g_open_prot[g_nopen] = g_reg[i].prot;
                                        g_nopen++;
                                }
                                mprotect((void *) pg, 4096, g_reg[i].prot);
                                return; // re-execute the instruction; the next trap closes the page again
                        }
        // a real fault: give up loudly
        static const char m[] = "tracer: unexpected SIGSEGV\n";
        (void) !write(2, m, sizeof m - 1);
        _exit(4);
}

} // namespace

void
trace_regions_clear()
{
        g_nreg = 0;
}

void
trace_region_add(const void *p, size_t len, int prot, int id)
{
        if (g_nreg >= 64 || len == 0)
                return;
        uintptr_t lo = (uintptr_t) p & ~(uintptr_t) 4095;
        uintptr_t hi = ((uintptr_t) p + len + 4095) & ~(uintptr_t) 4095;
        g_reg[g_nreg++] = { lo, hi, prot, id };
}

// fn(a0..a5) is called with TF set
__attribute__((noinline)) bool
trace_call(Trace &t, void *fn, uint64_t a0, uint64_t a1, uint64_t a2, uint64_t a3, uint64_t a4, uint64_t a5, uint64_t max_steps,
           uint64_t *ret)
{
        static uint8_t *alt = nullptr;
        if (!alt) {
                alt = (uint8_t *) malloc(1 << 20);
                stack_t ss;
                ss.ss_sp = alt;
                ss.ss_size = 1 << 20;
                ss.ss_flags = 0;
                sigaltstack(&ss, nullptr);
        }
        struct sigaction sa, old_trap, old_segv;
        memset(&sa, 0, sizeof sa);
        sa.sa_flags = SA_SIGINFO | SA_ONSTACK;
        sigfillset(&sa.sa_mask);
        sa.sa_sigaction = on_trap;
        sigaction(SIGTRAP, &sa, &old_trap);
        sa.sa_sigaction = on_segv;
        sigaction(SIGSEGV, &sa, &old_segv);
        g_tr = &t;
        g_max_steps = max_steps;
        g_overflow = false;
        g_nopen = 0;
        for (int i = 0; i < g_nreg; i++)
                mprotect((void *) g_reg[i].lo, g_reg[i].hi - g_reg[i].lo, PROT_NONE);
        uint64_t r;
        g_tracing = 1;
        register uint64_t r_a0 asm("rdi") = a0;
        register uint64_t r_a1 asm("rsi") = a1;
        register uint64_t r_a2 asm("rdx") = a2;
        register uint64_t r_a3 asm("rcx") = a3;
        register uint64_t r_a4 asm("r8") = a4;
        register uint64_t r_a5 asm("r9") = a5;
        asm volatile("movq %%rsp, %%rbx\n\t"
                     "andq $-16, %%rsp\n\t"
                     "pushfq\n\t"
                     "orq $0x100, (%%rsp)\n\t"
                     "popfq\n\t"
                     "call *%[f]\n\t"
                     "pushfq\n\t"
                     "andq $~0x100, (%%rsp)\n\t"
                     "popfq\n\t"
                     "movq %%rbx, %%rsp\n\t"
                     : "=a"(r), "+r"(r_a0), "+r"(r_a1), "+r"(r_a2), "+r"(r_a3), "+r"(r_a4), "+r"(r_a5)
                     : [f] "r"(fn)
                     : "rbx", "r10", "r11", "memory", "cc", "xmm0", "xmm1", "xmm2", "xmm3", "xmm4", "xmm5", "xmm6", "xmm7", "xmm8", "xmm9",
                       "xmm10", "xmm11", "xmm12", "xmm13", "xmm14", "xmm15");
        g_tracing = 0;
        for (int i = 0; i < g_nopen; i++)
                mprotect((void *) g_open[i], 4096, g_open_prot[i]);
        g_nopen = 0;
        for (int i = 0; i < g_nreg; i++)
                mprotect((void *) g_reg[i].lo, g_reg[i].hi - g_reg[i].lo, g_reg[i].prot);
        sigaction(SIGTRAP, &old_trap, nullptr);
        sigaction(SIGSEGV, &old_segv, nullptr);
        if (ret)
                *ret = r;
        return !g_overflow;
}

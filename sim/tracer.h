// Single-step tracer (C19): instruction addresses + accesses to protected data regions.
#pragma once
#include <stdint.h>
#include <stddef.h>
#include <vector>
struct Trace {
        uint64_t steps = 0;
        uint64_t rip_hash = 0;
        uint64_t addr_hash = 0;
        uint64_t data_accesses = 0;
        size_t keep = 1u << 22;          // how many entries to keep verbatim (for reporting the first difference)
        std::vector<uint64_t> rips;      // instruction addresses
        std::vector<uint64_t> addrs;     // pairs (rip, region id << 48 | offset in region)
};
void trace_regions_clear();
void trace_region_add(const void *p, size_t len, int prot, int id);
// call fn(a0..a5) with the trap flag set; returns false if max_steps was exceeded (tracing stopped, call completed)
bool trace_call(Trace &t, void *fn, uint64_t a0, uint64_t a1, uint64_t a2, uint64_t a3, uint64_t a4, uint64_t a5, uint64_t max_steps,
                uint64_t *ret);

// Call trampoline interface (see tramp.S, DESIGN.md 2.4)
#pragma once
#include <stdint.h>
#include <stddef.h>

#define TRAMP_STACK_DUMP 65536

extern "C" {
struct sim_probe {
        void *fn;               // 0
        uint64_t args[6];       // 8
        uint64_t nstack;        // 56
        uint64_t stack_args[32]; // 64
        uint64_t flags;         // 320: bit0 scrub stack+vector regs before, bit1 dump stack after, bit2 single-step the callee
        uint64_t canary[6];     // 328: rbx rbp r12 r13 r14 r15
};

struct tramp_out {
        uint64_t gpr[16];   // rax rbx rcx rdx rsi rdi rbp rsp r8..r15
        uint64_t rflags;    // 128
        uint32_t mxcsr_in;  // 136
        uint32_t mxcsr_out; // 140
        uint64_t rsp_call;  // 144  rsp just before the call instruction
        uint64_t k[8];      // 152
        uint8_t pad[256 - 152 - 64];
        uint8_t zmm[32][64]; // 256
        uint8_t stack[TRAMP_STACK_DUMP];
};
extern struct tramp_out g_tramp_out;
extern uint64_t g_tramp_saved_rsp;
uint64_t sim_call(struct sim_probe *p);
extern char sim_call_after[]; // the instruction after the call
}

static_assert(offsetof(sim_probe, flags) == 320, "probe layout");
static_assert(offsetof(sim_probe, canary) == 328, "probe layout");
static_assert(offsetof(tramp_out, rflags) == 128, "out layout");
static_assert(offsetof(tramp_out, rsp_call) == 144, "out layout");
static_assert(offsetof(tramp_out, k) == 152, "out layout");
static_assert(offsetof(tramp_out, zmm) == 256, "out layout");
static_assert(offsetof(tramp_out, stack) == 256 + 2048, "out layout");

#include "util.h"
#include <stdio.h>
#include <stdlib.h>
#include <time.h>
#include <ctype.h>

std::string hexstr(const uint8_t *p, size_t n, size_t max)
{
        static const char *d = "0123456789abcdef";
        std::string s;
        size_t m = n < max ? n : max;
        for (size_t i = 0; i < m; i++) {
                s += d[p[i] >> 4];
                s += d[p[i] & 15];
        }
        if (m < n)
                s += "..";
        return s;
}

std::string json_escape(const std::string &s)
{
        std::string o;
        for (unsigned char c : s) {
                if (c == '"' || c == '\\') {
                        o += '\\';
                        o += (char) c;
                } else if (c == '\n')
                        o += "\\n";
                else if (c == '\t')
                        o += "\\t";
                else if (c < 0x20) {
                        char b[8];
                        snprintf(b, sizeof b, "\\u%04x", c);
                        o += b;
                } else
                        o += (char) c;
        }
        return o;
}
JW &JW::str(const char *k, const std::string &v)
{
        key(k);
        out += "\"" + json_escape(v) + "\"";
        return *this;
}
JW &JW::astr(const std::string &v)
{
        sep();
        out += "\"" + json_escape(v) + "\"";
        return *this;
}

namespace {
struct P {
        const char *s, *e;
        std::string err;
        void ws()
        {
                while (s < e && isspace((unsigned char) *s))
                        s++;
        }
        JP val()
        {
                ws();
                if (s >= e) {
                        err = "eof";
                        return nullptr;
                }
                JP v = std::make_shared<JVal>();
                if (*s == '{') {
                        s++;
                        v->t = JVal::OBJ;
                        ws();
                        if (s < e && *s == '}') {
                                s++;
                                return v;
                        }
                        for (;;) {
                                ws();
                                JP k = val();
                                if (!k || k->t != JVal::STR) {
                                        err = "key";
                                        return nullptr;
                                }
                                ws();
                                if (s >= e || *s != ':') {
                                        err = "colon";
                                        return nullptr;
                                }
                                s++;
                                JP x = val();
                                if (!x)
                                        return nullptr;
                                v->o.emplace_back(k->s, x);
                                ws();
                                if (s < e && *s == ',') {
                                        s++;
                                        continue;
                                }
                                if (s < e && *s == '}') {
                                        s++;
                                        return v;
                                }
                                err = "obj";
                                return nullptr;
                        }
                }
                if (*s == '[') {
                        s++;
                        v->t = JVal::ARR;
                        ws();
                        if (s < e && *s == ']') {
                                s++;
                                return v;
                        }
                        for (;;) {
                                JP x = val();
                                if (!x)
                                        return nullptr;
                                v->a.push_back(x);
                                ws();
                                if (s < e && *s == ',') {
                                        s++;
                                        continue;
                                }
                                if (s < e && *s == ']') {
                                        s++;
                                        return v;
                                }
                                err = "arr";
                                return nullptr;
                        }
                }
                if (*s == '"') {
                        s++;
                        v->t = JVal::STR;
                        while (s < e && *s != '"') {
                                if (*s == '\\' && s + 1 < e) {
                                        s++;
                                        char c = *s++;
                                        if (c == 'n')
                                                v->s += '\n';
                                        else if (c == 't')
                                                v->s += '\t';
                                        else if (c == 'u' && s + 4 <= e) {
                                                v->s += (char) strtol(std::string(s, s + 4).c_str(), nullptr, 16);
                                                s += 4;
                                        } else
                                                v->s += c;
                                } else
                                        v->s += *s++;
                        }
                        if (s >= e) {
                                err = "str";
                                return nullptr;
                        }
                        s++;
                        return v;
                }
                if (!strncmp(s, "true", 4)) {
                        s += 4;
                        v->t = JVal::BOOL;
                        v->b = true;
                        return v;
                }
                if (!strncmp(s, "false", 5)) {
                        s += 5;
                        v->t = JVal::BOOL;
                        return v;
                }
                if (!strncmp(s, "null", 4)) {
                        s += 4;
                        return v;
                }
                char *end = nullptr;
                v->t = JVal::NUM;
                const char *b = s;
                bool isint = true;
                const char *q = s;
                if (q < e && (*q == '-' || *q == '+'))
                        q++;
                while (q < e && (isdigit((unsigned char) *q) || *q == '.' || *q == 'e' || *q == 'E' || *q == '-' || *q == '+')) {
                        if (!isdigit((unsigned char) *q))
                                isint = false;
                        q++;
                }
                if (q == b) {
                        err = "tok";
                        return nullptr;
                }
                if (isint) {
                        v->i = strtoll(b, &end, 10);
                        v->d = (double) v->i;
                        v->is_int = true;
                } else
                        v->d = strtod(b, &end);
                s = end;
                return v;
        }
};
} // namespace

JP json_parse(const std::string &txt, std::string *err)
{
        P p{txt.data(), txt.data() + txt.size(), ""};
        JP v = p.val();
        if (!v && err)
                *err = p.err;
        return v;
}

bool read_file(const std::string &path, std::string &out)
{
        FILE *f = fopen(path.c_str(), "rb");
        if (!f)
                return false;
        char buf[65536];
        size_t n;
        out.clear();
        while ((n = fread(buf, 1, sizeof buf, f)) > 0)
                out.append(buf, n);
        fclose(f);
        return true;
}
bool write_file(const std::string &path, const std::string &data)
{
        std::string tmp = path + ".tmp";
        FILE *f = fopen(tmp.c_str(), "wb");
        if (!f)
                return false;
        fwrite(data.data(), 1, data.size(), f);
        fclose(f);
        return rename(tmp.c_str(), path.c_str()) == 0;
}
double now_s()
{
        struct timespec ts;
        clock_gettime(CLOCK_MONOTONIC, &ts);
        return ts.tv_sec + ts.tv_nsec * 1e-9;
}

// Small utilities: PRNG, hashing, mini JSON. No dependency on the library.
#pragma once
#include <stdint.h>
#include <stddef.h>
#include <string.h>
#include <string>
#include <vector>
#include <map>
#include <memory>

static inline uint64_t splitmix64(uint64_t &s)
{
        uint64_t z = (s += 0x9E3779B97F4A7C15ull);
        z = (z ^ (z >> 30)) * 0xBF58476D1CE4E5B9ull;
        z = (z ^ (z >> 27)) * 0x94D049BB133111EBull;
        return z ^ (z >> 31);
}
static inline uint64_t mix64(uint64_t a, uint64_t b)
{
        uint64_t s = a ^ (b * 0xD6E8FEB86659FD93ull);
        return splitmix64(s);
}

struct Rng {
        uint64_t s;
        explicit Rng(uint64_t seed = 1) : s(seed) {}
        uint64_t next() { return splitmix64(s); }
        // uniform in [0,n)
        uint32_t below(uint32_t n) { return n ? (uint32_t) ((next() >> 11) % n) : 0; }
        uint32_t range(uint32_t lo, uint32_t hi) { return lo + below(hi - lo + 1); } // inclusive
        bool chance(double p) { return (double) (next() >> 11) * (1.0 / 9007199254740992.0) < p; }
        template <class T> const T &pick(const std::vector<T> &v) { return v[below((uint32_t) v.size())]; }
};

// fixed byte generator: object contents are a pure function of a 64-bit seed
static inline void fill_bytes(uint8_t *p, size_t n, uint64_t seed)
{
        uint64_t s = seed ^ 0x5851F42D4C957F2Dull;
        size_t i = 0;
        for (; i + 8 <= n; i += 8) {
                uint64_t v = splitmix64(s);
                memcpy(p + i, &v, 8);
        }
        if (i < n) {
                uint64_t v = splitmix64(s);
                memcpy(p + i, &v, n - i);
        }
}

static inline uint64_t fnv1a(const void *p, size_t n, uint64_t h = 0xcbf29ce484222325ull)
{
        const uint8_t *b = (const uint8_t *) p;
        for (size_t i = 0; i < n; i++) {
                h ^= b[i];
                h *= 0x100000001b3ull;
        }
        return h;
}

std::string hexstr(const uint8_t *p, size_t n, size_t max = 64);

// ---------------------------------------------------------------- mini JSON
struct JVal;
typedef std::shared_ptr<JVal> JP;
struct JVal {
        enum T { NUL, BOOL, NUM, STR, ARR, OBJ } t = NUL;
        bool b = false;
        double d = 0;
        int64_t i = 0;
        bool is_int = false;
        std::string s;
        std::vector<JP> a;
        std::vector<std::pair<std::string, JP>> o;
        JP get(const char *k) const
        {
                for (auto &kv : o)
                        if (kv.first == k)
                                return kv.second;
                return nullptr;
        }
        int64_t geti(const char *k, int64_t def = 0) const
        {
                JP v = get(k);
                if (!v)
                        return def;
                if (v->t == BOOL)
                        return v->b;
                return v->is_int ? v->i : (int64_t) v->d;
        }
        uint64_t getu(const char *k, uint64_t def = 0) const
        {
                JP v = get(k);
                if (!v)
                        return def;
                if (v->t == STR)
                        return strtoull(v->s.c_str(), nullptr, 0);
                return (uint64_t) (v->is_int ? v->i : (int64_t) v->d);
        }
        std::string gets(const char *k, const char *def = "") const
        {
                JP v = get(k);
                return (v && v->t == STR) ? v->s : std::string(def);
        }
};
JP json_parse(const std::string &txt, std::string *err = nullptr);

// JSON writer: builds a string
struct JW {
        std::string out;
        std::vector<bool> first;
        void sep()
        {
                if (!first.empty()) {
                        if (!first.back())
                                out += ",";
                        first.back() = false;
                }
        }
        void key(const char *k)
        {
                sep();
                out += "\"";
                out += k;
                out += "\":";
        }
        JW &obj(const char *k = nullptr)
        {
                if (k)
                        key(k);
                else
                        sep();
                out += "{";
                first.push_back(true);
                return *this;
        }
        JW &arr(const char *k = nullptr)
        {
                if (k)
                        key(k);
                else
                        sep();
                out += "[";
                first.push_back(true);
                return *this;
        }
        JW &end_obj()
        {
                out += "}";
                first.pop_back();
                return *this;
        }
        JW &end_arr()
        {
                out += "]";
                first.pop_back();
                return *this;
        }
        JW &num(const char *k, int64_t v)
        {
                key(k);
                out += std::to_string(v);
                return *this;
        }
        JW &unum(const char *k, uint64_t v)
        { // 64-bit seeds go out as strings (JSON doubles lose bits)
                key(k);
                out += "\"" + std::to_string(v) + "\"";
                return *this;
        }
        JW &dbl(const char *k, double v)
        {
                key(k);
                char b[64];
                snprintf(b, sizeof b, "%.6g", v);
                out += b;
                return *this;
        }
        JW &str(const char *k, const std::string &v);
        JW &boolean(const char *k, bool v)
        {
                key(k);
                out += v ? "true" : "false";
                return *this;
        }
        JW &raw(const char *k, const std::string &json)
        {
                if (k)
                        key(k);
                else
                        sep();
                out += json;
                return *this;
        }
        JW &anum(int64_t v)
        {
                sep();
                out += std::to_string(v);
                return *this;
        }
        JW &astr(const std::string &v);
};
std::string json_escape(const std::string &s);
bool read_file(const std::string &path, std::string &out);
bool write_file(const std::string &path, const std::string &data);
double now_s(); // wall clock; used only for budgets and evidence, never for decisions inside a run

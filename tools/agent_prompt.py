import json,sys
pid, wt, hints = sys.argv[1], sys.argv[2], sys.argv[3]
for l in open('/verif/properties.jsonl'):
    d=json.loads(l)
    if d['id']==pid: break
mech="; ".join(m['name']+' ('+m['where']+')' for m in d['anchors']['mechanism'])
print(f'''You are helping test a verification tool by producing a realistic *defect injection* ("mutant") for the open-source library intel-ipsec-mb (Intel's multi-buffer crypto library: SIMD/assembly cipher, hash and AEAD implementations behind a job manager that schedules and flushes jobs across lanes).

You have your own scratch git worktree of the library at {wt} . Work ONLY inside {wt} (never touch /repo or /verif, never commit anywhere else). Start by reading its top-level README.md, lib/intel-ipsec-mb.h and the files named below.

THE PROPERTY (this is all you get about what must hold):

Title: {d['title']}

Statement: {d['statement']}

Quantified over: {d['quantifier']['text']}

Relevant files: {", ".join(d['anchors']['files'])}. Mechanisms: {mech}.

YOUR TASK: make a small, realistic source change to the library (the kind of mistake a maintainer could plausibly make: {hints}) that BREAKS this property, while
 (a) the library and its tests still compile, and
 (b) the repository's existing test suite still passes completely, and
 (c) the breakage needs something specific to manifest (a particular algorithm / key size / length class / architecture variant / schedule / number of jobs in flight / call order) - NOT something that breaks the common path every test exercises.
The host CPU supports SSE, AVX2 and AVX512 (with VAES/GFNI/SHA-NI); there are 7 executable implementation variants: SSE type 1/2/3 (init_mb_mgr_sse with flags IMB_FLAG_SHANI_OFF|IMB_FLAG_GFNI_OFF / IMB_FLAG_GFNI_OFF / 0), AVX2 type 1/2, AVX512 type 1/2.

How to build and test in your worktree (16 cores are shared with other work, please use at most -j6 for builds and -j4 for tests):
  cmake -G Ninja -S {wt} -B {wt}/_build -DCMAKE_BUILD_TYPE=Release
  cmake --build {wt}/_build -j6
  ctest --test-dir {wt}/_build -j4 --timeout 900        (753 tests, all must pass; takes ~6-12 minutes)
For the demonstration you need static libraries: configure a second build dir with -DBUILD_SHARED_LIBS=OFF -DBUILD_LIBRARY_ONLY=ON for the pristine tree (do this first, e.g. {wt}/_static_orig, from a `git archive HEAD` export or before you edit) and one for the modified tree.

DELIVERABLES, all placed in {wt}/mutant/ :
 1. patch.diff - `git -C {wt} diff -- lib` of your change (only files under lib/).
 2. demo.c - ONE stand-alone C file using only the public API (lib/intel-ipsec-mb.h; libcrypto may be used as an independent reference if useful; mmap/mprotect/signals/pthreads allowed), plus the exact compile/run commands in RUN.md, which FAILS (non-zero exit, clear message) when linked against the modified library and PASSES (exit 0) when linked against the unmodified library. It must compile with: gcc -O1 -I<dir containing intel-ipsec-mb.h> demo.c <path>/libIPSec_MB.a -lcrypto -lpthread . Verify both yourself.
 3. NOTES.md - exactly what is needed for it to manifest, and the tail of the full ctest run with the change applied showing 100% tests passed; save the full log as ctest_full.log in the same folder.
Leave the change applied in the worktree's working tree (uncommitted) when you finish. In your final message report: the one-paragraph description of the change, what triggers it, and whether ctest passed fully (with the pass count).''')

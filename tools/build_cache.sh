#!/bin/bash
# Build (or reuse) a static + PIC library build of /repo's *current working tree*.
# Prints the cache directory on stdout. Keyed by a content hash of lib/ + cmake files,
# so any edit to /repo triggers a rebuild. Serialised with flock; keeps the 3 newest builds.
set -euo pipefail
REPO=${IMB_REPO:-/repo}
CACHE=${IMB_CACHE:-${VERIF_DIR:-/verif}/.cache}
EXTRA_DEFS=${IMB_EXTRA_CFLAGS:-}
mkdir -p "$CACHE"
hash=$( (cd "$REPO" && find lib cmake CMakeLists.txt -type f \( -name '*.c' -o -name '*.h' -o -name '*.asm' -o -name '*.inc' -o -name '*.cmake' -o -name 'CMakeLists.txt' -o -name '*.def' \) -print0 | sort -z | xargs -0 sha256sum; echo "$EXTRA_DEFS") | sha256sum | cut -c1-20)
dir="$CACHE/lib-$hash"
exec 9>"$CACHE/.lock"
flock 9
if [ ! -f "$dir/ok" ]; then
  rm -rf "$dir"; mkdir -p "$dir"
  # copy the library sources so that an edit of /repo during the build cannot tear it
  src="$dir/src"; mkdir -p "$src"
  (cd "$REPO" && cp -a CMakeLists.txt cmake lib "$src/" && mkdir -p "$src/test" "$src/perf" "$src/examples")
  if ! ( cmake -G Ninja -S "$src" -B "$dir/b" -DBUILD_SHARED_LIBS=OFF -DBUILD_LIBRARY_ONLY=ON \
        -DCMAKE_BUILD_TYPE=RelWithDebInfo -DCMAKE_POSITION_INDEPENDENT_CODE=ON \
        -DCMAKE_C_FLAGS="-Wno-error -DIMB_VERIF_SIM $EXTRA_DEFS" >"$dir/cmake.log" 2>&1 \
       && cmake --build "$dir/b" -j16 >"$dir/build.log" 2>&1 ); then
     echo "build_cache: library build failed, see $dir/build.log" >&2
     tail -30 "$dir/build.log" >&2 || true
     exit 2
  fi
  lib=$(find "$dir/b" -name 'libIPSec_MB.a' | head -1)
  cp "$lib" "$dir/libIPSec_MB.a"
  cp "$src/lib/intel-ipsec-mb.h" "$dir/"
  mkdir -p "$dir/include"; cp -a "$src/lib/include/." "$dir/include/"
  # two shared copies of the same objects, distinct sonames (C16 other-image mode)
  for x in A B; do
    gcc -shared -o "$dir/libimb_$x.so" -Wl,-soname,libimb_$x.so -Wl,-Bsymbolic \
        -Wl,--whole-archive "$dir/libIPSec_MB.a" -Wl,--no-whole-archive -Wl,-z,noexecstack
  done
  rm -rf "$dir/b" "$dir/src"
  touch "$dir/ok"
fi
touch "$dir/ok"
# prune: keep 3 newest lib builds
ls -dt "$CACHE"/lib-* 2>/dev/null | tail -n +4 | while read -r d; do rm -rf "$d"; done
echo "$dir"

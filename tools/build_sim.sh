#!/bin/bash
# Build imbsim against the library build for /repo's current tree. Prints the binary path.
set -euo pipefail
V=${VERIF_DIR:-/verif}
LIBDIR=${IMB_LIBDIR:-$("$V/tools/build_cache.sh")}
CACHE=$V/.cache; mkdir -p "$CACHE"
shash=$( (cd "$V" && cat sim/*.cc sim/*.h sim/*.S sim/*.inc ref/*.cc ref/*.h 2>/dev/null; sha256sum "$LIBDIR/intel-ipsec-mb.h") | sha256sum | cut -c1-16)
OBJ=$CACHE/simobj-$shash
BIN=$CACHE/bin-$(basename "$LIBDIR")-$shash
exec 8>"$CACHE/.simlock"; flock 8
if [ ! -x "$BIN/imbsim" ]; then
  mkdir -p "$OBJ" "$BIN"
  CXXFLAGS="-std=c++17 -O1 -g -Wall -Wextra -Wno-unused-parameter -Wno-missing-field-initializers -I$LIBDIR -I$LIBDIR/.. -I$V/sim -fno-omit-frame-pointer"
  pids=()
  for f in "$V"/sim/*.cc "$V"/ref/*.cc; do
    o="$OBJ/$(basename "${f%.cc}").o"
    if [ ! -f "$o" ]; then ( g++ $CXXFLAGS -c "$f" -o "$o.tmp" && mv "$o.tmp" "$o" ) & pids+=($!); fi
  done
  [ -f "$OBJ/tramp.o" ] || gcc -c "$V/sim/tramp.S" -o "$OBJ/tramp.o"
  fail=0; for p in "${pids[@]:-}"; do [ -n "$p" ] && { wait "$p" || fail=1; }; done
  [ $fail = 0 ] || { echo "build_sim: compile failed" >&2; exit 2; }
  g++ -no-pie -o "$BIN/imbsim.tmp" "$OBJ"/*.o "$LIBDIR/libIPSec_MB.a" -Wl,--wrap=mbcpuid -lcrypto -ldl -lpthread -Wl,-z,noexecstack
  mv "$BIN/imbsim.tmp" "$BIN/imbsim"
  # prune old sim builds (keep 4 newest of each)
  ls -dt "$CACHE"/simobj-* 2>/dev/null | tail -n +5 | xargs -r rm -rf
  ls -dt "$CACHE"/bin-* 2>/dev/null | tail -n +5 | xargs -r rm -rf
fi
touch "$BIN"
echo "$BIN/imbsim"

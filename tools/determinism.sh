#!/bin/bash
# tools/determinism.sh [runs per profile] : every seed is executed twice in one process (event-log hashes must match) and
# the whole list is produced by two separate processes started with different environments and diffed.
set -uo pipefail
cd "$(dirname "$0")/.."; export VERIF_DIR=$PWD
N=${1:-300}
BIN=$(tools/build_sim.sh 2>/dev/null) || exit 2
d=$(basename "$(dirname "$BIN")"); d=${d#bin-}; export IMB_LIBDIR_RESOLVED="$VERIF_DIR/.cache/${d%-*}"
T=$(mktemp -d /dev/shm/det.XXXXXX); trap 'rm -rf "$T"' EXIT
profiles="sched:C05 desc:C14 solo:C04 cc:C18 guard:C07 reinit:C15 reattach:C16 reject:C12 xvar:C08 ref_cipher:C01 ref_hash:C02 ref_aead:C03 ref_chain:C06 scrub:C13 keyprep:C11 entry:C09 sgl:C10 indep:C17 f12:C09 scrub_entry:C13"
bad=0
for pp in $profiles; do
  p=${pp%%:*}; q=${pp##*:}
  ( "$BIN" determinism --profile $p --prop $q --runs $N --seed 42 > "$T/$p.a" 2>&1; echo $? > "$T/$p.rc" ) &
  ( env -i PATH="$PATH" VERIF_DIR="$VERIF_DIR" IMB_LIBDIR_RESOLVED="$IMB_LIBDIR_RESOLVED" FOO=$(head -c 3000 /dev/zero | tr '\0' x) "$BIN" determinism --profile $p --prop $q --runs $N --seed 42 > "$T/$p.b" 2>&1 ) &
  while [ $(jobs -r | wc -l) -ge 14 ]; do sleep 0.2; done
done
wait
for pp in $profiles; do
  p=${pp%%:*}
  rc=$(cat "$T/$p.rc"); nd=$(grep -c NONDET "$T/$p.a")
  if ! cmp -s "$T/$p.a" "$T/$p.b"; then echo "profile $p: DIFFERS between processes: $(diff "$T/$p.a" "$T/$p.b" | head -3 | tr '\n' ' ')"; bad=1
  elif [ "$rc" != 0 ] || [ "$nd" != 0 ]; then echo "profile $p: $nd seeds differ between two executions in one process (rc=$rc)"; bad=1
  else echo "profile $p: $(wc -l < "$T/$p.a") seeds x2 executions x2 processes identical"; fi
done
exit $bad

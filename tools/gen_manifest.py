#!/usr/bin/env python3
# Generates /verif/MANIFEST.json from the table below (kept in one place so that it stays valid).
import json, sys
REFNOTE = "Trusted base: libcrypto single-block AES/DES/SM4 and plain MD5/SHA/SM3 (an independent implementation); every mode, MAC, AEAD composition and CRC is written in /verif/ref from the specifications. Algorithms without an admitted reference (listed in the evidence counter 'reference_not_admitted': ZUC, SNOW3G, KASUMI, SNOW-V, PON until their hand-written references are admitted) are covered by the differential oracles of C04/C08 only. This is seeded input sampling with an independent oracle; the schedule adds lane co-occupancy."
claimed = {
 "C09": ("exploration", "cross-entry-point differential: every work item through a direct/sync-burst entry point vs the job API",
   "Seeded plans of synchronous cipher/hash/AEAD bursts (sizes 1..128, checked and no-check) and direct calls: GCM one-shot and init/update/finalize (seeded partitions), GMAC init/update/finalize, GHASH, SHA one-shot, the twelve CRC functions, ZUC EEA3 1/4/n-buffer and EIA3 1/n-buffer, SNOW3G F8 1/2/4/8/n(+multikey)/bit and F9, KASUMI F8 1/2/3/4/n/bit and F9, ChaCha20-Poly1305 init/update/finalize; n-buffer calls use n below, equal to and above the lane count with unequal lengths. Each buffer's output/tag must be byte-identical to the same work item submitted alone through the job API on the same variant (and to the reference where one is admitted); a sync burst must return n with every job COMPLETED. Checked/no-check single-job submit and the asynchronous burst API are compared with the job API in the C04/C05 profiles (solo oracle).",
   "QUIC batch helpers (AES-GCM and ChaCha20-Poly1305 batches vs the one-shot jobs; header-protection masks vs AES-ECB / ChaCha20 references), single-block AES-CFB (vs in xor E(iv)) and the SHA-1/224/256/384/512/MD5 one-block functions (vs libcrypto's compression function) are compared with references directly because they have no job-API equivalent. Not covered: the PON HEC helpers. Sync bursts are issued on an idle manager only (F12, sync burst while async jobs are parked, is not explored)."),
 "C10": ("exploration", "segmentation (the partition of the message is the schedule): SGL streams interleaved with other traffic vs the one-shot job",
   "GCM-SGL and ChaCha20-Poly1305-SGL streams (INIT/UPDATE.../COMPLETE jobs with a context carried between calls) are split by seeded ordered partitions (1..12 segments, zero-length segments, cuts inside 16- and 64-byte blocks) and their segment jobs are interleaved with other jobs, other SGL streams and flushes; segment-list (IMB_SGL_ALL) jobs and the direct GCM/GMAC/ChaCha20-Poly1305 init-update-finalize calls (C09 profile) are partitioned the same way. At COMPLETE the concatenated output and the tag must equal the non-SGL one-shot job on the same variant and the reference.",
   "Partitions are sampled; the exhaustive 2-cut enumeration of DESIGN.md is thorough-tier work. Both directions, all key sizes, all 12 configurations."),
 "C11": ("exploration", "helper outputs vs key schedules written from the standards, called at seeded points of ordinary traffic, on every variant",
   "AES-128/192/256 key expansion (encrypt schedule vs FIPS-197, decrypt schedule vs the equivalent-inverse-cipher schedule), CMAC sub-keys (SP 800-38B), XCBC K1/K2/K3 (RFC 3566), HMAC ipad/opad states for SHA-1/224/256/384/512/MD5 with key lengths 0..160 (longer-than-block keys hashed first; HMAC-MD5 keys > 64 bytes must be refused with IMB_ERR_KEY_LEN and leave outputs untouched), AES round keys inside gcm_key_data, SNOW3G key schedule and the six 3GPP IV generators are compared byte-for-byte with references, for random and structured keys (all-zero, all-one, single-bit), and the same call is repeated on the six other variants' helpers and must give identical bytes. Calls are sprinkled between the ops of ordinary schedules (also while jobs are parked).",
   "GHASH key powers, DES, SM4 and KASUMI schedules have library-specific layouts: they are covered through the jobs that consume them (C01-C03 reference checks use helper-made keys), not byte-compared. DES weak keys not yet included."),
 "C01": ("exploration", "reference-model refinement of every completed cipher job under seeded schedules",
   "Cipher-only jobs of every mode x key size x direction are generated with boundary-biased lengths (block/SIMD-width edges, >4 KiB, near 65534), offsets, alignments, in-place/out-of-place and IV classes (random, low byte FF, low 32 bits about to wrap, low 64 bits all ones, all ones), co-scheduled on all 12 init configurations; every handed-back job's destination bytes (exact bits for bit-length modes), source afterwards and CBCS next-IV are compared with a textbook reference applied to a shadow copy of the caller's memory.", REFNOTE),
 "C02": ("exploration", "reference-model refinement of every completed hash/MAC job under seeded schedules",
   "Hash-only jobs of every algorithm with every permitted tag length, lengths biased to 0/1, block and padding thresholds (55/56/64, 111/112/128, 119/120), bit lengths for the 3GPP MACs, up to 65534 bytes, mixed so that multi-buffer lanes hold different lengths and flushes complete partially filled lanes; the tag bytes are compared with the leading bytes of the reference value.", REFNOTE),
 "C03": ("exploration", "reference-model refinement of AEAD/combined jobs in both directions under seeded schedules",
   "GCM (3 key sizes, IV lengths 1..64, AAD 0..1100, tags 1..16), CCM (nonce 7..13, AAD 0..46, even tags), ChaCha20-Poly1305, SM4-GCM and DOCSIS-BPI+CRC32 (frame geometry as documented) in both directions: ciphertext/plaintext, tag and the CRC written into the frame are compared with references written from SP 800-38D, RFC 3610, RFC 8439 and the DOCSIS BPI rules; decrypt jobs are checked the same way (so encrypt-then-decrypt consistency follows from both equalling the reference).", REFNOTE + " PON and SNOW-V-AEAD have no admitted reference yet (differential only)."),
 "C06": ("exploration", "reference composition cipher_ref o hash_ref in the requested chain order on shadow memory",
   "Chained jobs pairing any generic cipher with any generic hash, both chain orders, both directions, in-place and out-of-place, independent cipher/hash ranges: the reference applies the two textbook stages in the requested order to a shadow copy of the caller's memory (so a stage run twice, skipped, with the wrong key size or seeing the wrong bytes changes the result); the dedicated AEAD pairings are submitted with foreign partners as invalid jobs and must be rejected (also C12). Burst API jobs carry suite ids from imb_set_session() and are checked identically.", REFNOTE + " The product of suites is sampled (seeded), not yet enumerated cell by cell."),
 "C04": ("exploration", "solo-run differential under seeded schedules",
   "Seeded simulation of API-call schedules (job and burst API, flush/get-completed at arbitrary points, ring wrap, queue-full pressure, 1-6 suites mixed so that lanes hold different lengths) on all 12 init configurations (7 variants); every job handed back is compared byte-for-byte (dst, tag, source after, next-IV, status) with the same job run alone on a fresh manager of the same variant. Sampled, not exhaustive; a clean batch is evidence.",
   "Trusts that the library's solo run is a fair 'alone' baseline (a defect that is identical alone and co-scheduled is C01-C03's business). SGL streams are excluded here (C10). Documented don't-care bytes are masked: PON CRC word for PLI<=4, DOCSIS CRC for frames shorter than the minimum Ethernet PDU."),
 "C05": ("exploration", "FIFO reference model checked after every simulated call",
   "A trivial scheduler model (FIFO of job ids + set of slots handed out) is stepped alongside the real manager for every op of a seeded plan: returned pointers must be the model's head in order, never a slot awaiting return, status COMPLETED/INVALID_ARGS, queue size = FIFO length, flush NULL iff empty, forced completion of the oldest job on the 256th outstanding submit, get_next_burst = min(n, free) consecutive free slots, rejected bursts and injected API misuse leave the queue unchanged; end of run drains exactly the remaining FIFO within its length in calls.",
   "Job API and burst API are not mixed while jobs are in flight (the header does not allow it). Sampled schedules."),
 "C07": ("exploration", "guard-page placement faults + canaries + pre-image comparison under seeded schedules",
   "Every caller object (source, destination, IV, AAD, tag, every key object, contexts) lives in its own arena slot and is placed, per seeded choice, with its last byte (or first byte) adjacent to a PROT_NONE page, or in canary-filled memory; a fault in a guard page ends the run as a violation attributed to (variant, algorithm, object, direction); after hand-back canaries, read-only inputs, bytes outside the writable source range and exact destination/tag lengths are compared with pre-images. Co-scheduled jobs included (idle-lane padding).",
   "An over-read that stays inside the same page of a larger object is invisible unless the object is end-flush; library-internal tables are out of scope. In-place vs out-of-place equality is covered through the reference/solo oracles of other checks."),
 "C08": ("exploration", "cross-variant differential + CPUID-masking fault enumeration",
   "(1) Every completed job of a seeded schedule is re-run alone on each of the other 6 executable variants and must give identical bytes/status. (2) Fault F5: CPUID is wrapped at link time; for each init function every single required feature (exhaustive) and seeded subsets are hidden, on a fresh manager and on a working manager with parked jobs: the call must return IMB_ERR_MISSING_CPUFLAGS_INIT_MGR, make no self-test callbacks, not crash, leave a working manager untouched and usable; hidden optional features must still initialise and init_mb_mgr_auto must pick the best remaining architecture.",
   "AVX2 t3/t4 cannot run on this host. 'Executing unsupported instructions' is observed through the self-test callback stream and crashes, since the host physically supports the instructions."),
 "C12": ("fault_enumeration", "invalid-job catalogue injected into running schedules; untouched-snapshot and errno oracles",
   "A catalogue of 30 single-field violations written from the documented constraints (null pointers, bad mode/algorithm/direction, key/IV/tag/AAD length, zero/over-limit/misaligned lengths, AEAD pairing both ways, DOCSIS chain order, CCM geometry, PON PLI/in-place) is applied to valid jobs of every suite and injected into running streams (job API and checked bursts, with parked jobs before and after), plus burst-call misuse (size>128, NULL array, NULL entry, too many jobs). Oracles: INVALID_ARGS in FIFO position, manager error code in the documented set, byte-for-byte snapshot of every caller object unchanged (objects sit against guard pages), queue unchanged by a rejected burst, and every generated valid job accepted.",
   "Expected error codes come from the catalogue written by hand from the header; pairs of violations accept either code. Direct-API NULL/over-limit arguments are exercised by the C09/C12 direct profile when built."),
 "C14": ("exploration", "descriptor snapshot at submit vs hand-back + error code after every call",
   "For every job of every simulated schedule the whole IMB_JOB is snapshotted at submit and compared at hand-back (only status, the two length fields that the property does not list, padding and the documented 'reserved' SNOW-V field may differ); status must be COMPLETED or INVALID_ARGS; after every API call of every kind the manager's error code must be 0 on success and in the expected set on failure (failing and succeeding calls are interleaved so a stale code shows). imb_get_strerror() is called for all integers in [-70000,70000], INT_MIN/INT_MAX and the IMB_ERR range +-2.",
   "Fields not named by the property (the two message-length fields) are excluded on purpose."),
 "C15": ("exploration", "re-init fault at seeded points + history equality with a fresh manager",
   "Fault F3: init_mb_mgr_* (any of the 12 configurations, flags changed through imb_set_pointers_mb_mgr(...,0)) is injected into running schedules, preferentially with jobs parked. Immediately afterwards: queue size 0, flush/get-completed NULL, self-test pass bit, errno 0. Then the event history (ring positions, statuses, error codes, output hashes) of all later ops must equal the history of the same ops on a freshly allocated manager of the new variant; later jobs are also checked against solo runs.",
   "Re-init points are sampled (every op index only in thorough tier); equality is on the hashed event log."),
 "C16": ("exploration", "crash/re-attach fault at seeded points; FIFO model + solo oracle across the re-attach",
   "Fault F4: between two API calls the manager is re-attached without reset (imb_set_pointers_mb_mgr(p, flags, 0), the documented fail-over path); then the run continues and drains: every job that was in flight must come back exactly once, in order, COMPLETED and byte-equal to its solo run, queue size preserved, manager usable afterwards. Same-image mode in every run; other-image mode (second copy of the library, first copy made inaccessible) for a sample.",
   "fork/exec mode is not built; the other-image mode stands in for a different load address."),
 "C17": ("exploration", "multi-manager interleaving; per-task history equality with the task run alone",
   "2-3 managers of seeded variant combinations are driven by one seeded schedule interleaved at call granularity; each task's event history (hand-back order, statuses, error codes, queue sizes, output hashes) must equal the history of exactly the same ops run with the other tasks absent.",
   "Pre-emption inside a call (L2) and real threads are separate sub-profiles when built; call-granular interleaving cannot expose a race window inside one call."),
 "C18": ("exploration", "assembly call trampoline invariant on every simulated call",
   "Every library call of every simulation goes through an assembly trampoline that loads rbx, rbp, r12-r15 with per-call canaries and records rsp, RFLAGS and MXCSR; after the call all must be unchanged and DF clear. The check's own workload mixes all suites, job/burst API, invalid jobs (early-return paths), flushes at every occupancy, key-preparation helpers and init functions on all 12 configurations.",
   "Windows ABI paths are not exercised. Reach is what the sampled schedules execute."),
 "C20": ("fault_enumeration", "self-test corruption through the existing callback seam, enumerated",
   "For each of the 12 init configurations x {explicit init, init_mb_mgr_auto under a CPUID mask}: clean init (pass bit, errno 0, START/CORRUPT/PASS triples, every algorithm of README 'Self-Test' announced with its type), every single self-test entry corrupted (exhaustive): FAIL for exactly that entry, pass bit clear, IMB_ERR_SELFTEST, clean re-init passes again; pairs (sampled quick / all thorough), random subsets, all entries; also with jobs parked in the manager.",
   "The documented algorithm list is matched by substring on the description strings."),
 "C19": ("exploration", "instruction-level deterministic execution (single-step seam) of the same work item under two keys; trace equality",
   "The simulator's single-step tracer executes the real library code of SSE type 1 and AVX2 type 1 one instruction at a time (trap flag) with the library's data segments, the key schedule, IV, source and destination made inaccessible, so that every instruction address and every (instruction, data address) pair is recorded. The same work item (DES, 3DES, DOCSIS-DES with a partial block, KASUMI F8/F9, SNOW3G UEA2/UIA2; job API submit+flush and the direct single-buffer functions) is executed with two keys (random pairs; thorough: also all-zero vs all-ones and single-bit keys, both directions) at identical addresses; the two traces must be identical in length, instruction sequence and data-address sequence.",
   "This check uses the simulator's execution seam as an observer; it has no schedule or fault dimension (the property has none) - the varied quantity is the secret. Sampled key pairs only: a key-dependent branch that both keys take identically is not seen (no taint tracking). Stack accesses and accesses to the manager structure are not recorded. Single-stepping costs about 35 us per instruction in this VM, which bounds the number of pairs."),
}
na = {
 "C13": "not built yet in this revision: residue scanner planned",
}
def build():
    checks=[]
    for pid,(lvl,tech,text,note) in sorted(claimed.items()):
        checks.append({
          "property_id": pid,
          "quick_cmd": "./check %s --tier quick" % pid,
          "thorough_cmd": "./check %s --tier thorough" % pid,
          "evidence_file": "/verif/evidence/%s.json" % pid,
          "replay_cmd_template": "./check replay {path}",
          "engine": "imbsim",
          "level_claimed": {"category": lvl, "text": text, "design_ref": "DESIGN.md section 3 (%s)" % pid},
          "level_note": note,
          "technique": "deterministic simulation with fault injection: " + tech,
        })
    m={
     "version": 1,
     "setup_cmd": "tools/build_sim.sh > /dev/null",
     "hooks": {
        "guard": "IMB_VERIF_SIM",
        "enable": "tools/build_cache.sh passes -DIMB_VERIF_SIM in CMAKE_C_FLAGS when it builds the library from /repo's working tree; no hook code is needed in /repo so far (all seams are the public API, link-time --wrap=mbcpuid and the simulator's own arena)",
        "baseline_off_cmd": "cmake -G Ninja -S /repo -B /repo/_build && cmake --build /repo/_build && ctest --test-dir /repo/_build -j8 --timeout 900",
        "source_commits": [],
        "add_only": True
     },
     "engines": [{"name":"imbsim","path":"/verif/sim","serves_properties":sorted(claimed.keys()),
                  "kind_free_text":"deterministic simulator: seeded plans (schedule + faults as ops) interpreted against the real library through an assembly call trampoline, guarded arena, FIFO reference model, differential and reference oracles, ddmin shrinking, replay files"}],
     "checks": checks,
     "notes": "Fix commits in /repo for genuine defects found are listed in /verif/known_findings.json (kind=fixed). ./check <id> rebuilds the library from /repo's working tree (cache keyed by content hash).",
     "not_applicable": [{"property_id":k,"reason":v} for k,v in sorted(na.items())],
    }
    json.dump(m, open('/verif/MANIFEST.json','w'), indent=1)
build()

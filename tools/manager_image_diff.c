/* Exploration aid (not a registered check): runs one schedule per algorithm three times on identical, freshly
 * initialised managers placed in caller memory - key A, key B, key A - and compares the quiescent manager images.
 * A byte that differs between A and B, is stable between A and A and is not a copy of any job output is
 * key-dependent residue. It found the HMAC-SHA-384/512 outer-block defect (fix 2453d84) and confirmed the
 * ZUC / SNOW3G ones; what it reports for CBC-type lanes (chaining values) is not key material and is left alone.
 * Build: gcc -O1 -w -I$LIB tools/manager_image_diff.c $LIB/libIPSec_MB.a -o /dev/shm/mid ; /dev/shm/mid <jobs>  (LIB=$(tools/build_cache.sh)) */
#include <stdio.h>
#include <stdlib.h>
#include <string.h>
#include <stdint.h>
#include <intel-ipsec-mb.h>
static uint8_t key_buf[64] __attribute__((aligned(64)));
static uint8_t iv_buf[32] __attribute__((aligned(64)));
static uint8_t aad_buf[32] __attribute__((aligned(64)));
static uint8_t src_buf[512] __attribute__((aligned(64)));
static uint8_t dst_buf[40*512] __attribute__((aligned(64)));
static uint8_t tag_buf[40*64] __attribute__((aligned(64)));
static uint8_t ks1[4096] __attribute__((aligned(64)));
static uint8_t ks2[4096] __attribute__((aligned(64)));
static uint8_t ks3[4096] __attribute__((aligned(64)));
typedef void (*init_fn)(IMB_MGR*);
enum { A_CBC_ENC, A_CBC_DEC, A_CTR, A_ECB, A_CFB, A_DOCSIS, A_DES, A_3DES, A_ZUC256, A_SNOW3G_UEA2, A_KASUMI_UEA1, A_CHACHA20, A_SNOWV, A_SM4_CBC, A_SM4_CTR,
       A_GCM, A_CCM, A_CHACHAPOLY, A_SNOWV_AEAD, A_SM4_GCM,
       A_HMAC_SHA1, A_HMAC_SHA256, A_HMAC_SHA512, A_HMAC_MD5, A_XCBC, A_CMAC, A_CMAC256, A_GMAC, A_GHASH, A_POLY1305, A_ZUC256_EIA3, A_KASUMI_UIA1, A_HMAC_SM3, A_N };
static const char *an[] = { "AES-CBC-enc","AES-CBC-dec","AES-CTR","AES-ECB","AES-CFB","DOCSIS-BPI","DES","3DES","ZUC256-EEA3","SNOW3G-UEA2","KASUMI-UEA1","CHACHA20","SNOW-V","SM4-CBC","SM4-CTR",
 "AES-GCM","AES-CCM","CHACHA20-POLY1305","SNOW-V-AEAD","SM4-GCM","HMAC-SHA1","HMAC-SHA256","HMAC-SHA512","HMAC-MD5","AES-XCBC","AES-CMAC","AES-CMAC-256","AES-GMAC","GHASH","POLY1305","ZUC256-EIA3","KASUMI-UIA1","HMAC-SM3" };
static int njobs = 1;
static int run(void *mem, size_t sz, init_fn init, uint64_t flags, int alg, int which)
{
	memset(mem, 0, sz);
	IMB_MGR *m = imb_set_pointers_mb_mgr(mem, flags, 1);
	init(m);
	for (unsigned i = 0; i < 64; i++) key_buf[i] = which ? (uint8_t)(0xC3 ^ (i*29+7)) : (uint8_t)(0x11+i*5);
	for (unsigned i = 0; i < 32; i++) iv_buf[i] = 0x20+i; for (unsigned i=17;i<25;i++) iv_buf[i]&=0x3f;
	for (unsigned i = 0; i < 32; i++) aad_buf[i] = 0x70+i;
	for (unsigned i = 0; i < 512; i++) src_buf[i] = 0x5a ^ (i*7);
	memset(dst_buf,0,sizeof dst_buf); memset(tag_buf,0,sizeof tag_buf); memset(ks1,0,4096); memset(ks2,0,4096); memset(ks3,0,4096);
	/* key preparation */
	switch (alg) {
	case A_CBC_ENC: case A_CBC_DEC: case A_CTR: case A_ECB: case A_CFB: case A_DOCSIS: case A_CCM: IMB_AES_KEYEXP_128(m, key_buf, ks1, ks2); break;
	case A_DES: case A_3DES: IMB_DES_KEYSCHED(m, (uint64_t*)ks1, key_buf); IMB_DES_KEYSCHED(m, (uint64_t*)ks2, key_buf+8); IMB_DES_KEYSCHED(m, (uint64_t*)ks3, key_buf+16); break;
	case A_SNOW3G_UEA2: IMB_SNOW3G_INIT_KEY_SCHED(m, key_buf, (snow3g_key_schedule_t*)ks1); break;
	case A_KASUMI_UEA1: IMB_KASUMI_INIT_F8_KEY_SCHED(m, key_buf, (kasumi_key_sched_t*)ks1); break;
	case A_KASUMI_UIA1: IMB_KASUMI_INIT_F9_KEY_SCHED(m, key_buf, (kasumi_key_sched_t*)ks1); break;
	case A_SM4_CBC: case A_SM4_CTR: IMB_SM4_KEYEXP(m, key_buf, (uint32_t*)ks1, (uint32_t*)ks2); break;
	case A_GCM: case A_GMAC: IMB_AES128_GCM_PRE(m, key_buf, (struct gcm_key_data*)ks1); break;
	case A_GHASH: IMB_GHASH_PRE(m, key_buf, (struct gcm_key_data*)ks1); break;
	case A_SM4_GCM: imb_sm4_gcm_pre(m, key_buf, (struct gcm_key_data*)ks1); break;
	case A_HMAC_SHA1: { uint8_t b[64]; for (int i=0;i<64;i++) b[i]=key_buf[i%20]^0x36; IMB_SHA1_ONE_BLOCK(m,b,ks1); for (int i=0;i<64;i++) b[i]=key_buf[i%20]^0x5c; IMB_SHA1_ONE_BLOCK(m,b,ks2); break; }
	case A_HMAC_SHA256: { uint8_t b[64]; for (int i=0;i<64;i++) b[i]=key_buf[i%32]^0x36; IMB_SHA256_ONE_BLOCK(m,b,ks1); for (int i=0;i<64;i++) b[i]=key_buf[i%32]^0x5c; IMB_SHA256_ONE_BLOCK(m,b,ks2); break; }
	case A_HMAC_SHA512: { uint8_t b[128]; for (int i=0;i<128;i++) b[i]=key_buf[i%64]^0x36; IMB_SHA512_ONE_BLOCK(m,b,ks1); for (int i=0;i<128;i++) b[i]=key_buf[i%64]^0x5c; IMB_SHA512_ONE_BLOCK(m,b,ks2); break; }
	case A_HMAC_MD5: { uint8_t b[64]; for (int i=0;i<64;i++) b[i]=key_buf[i%16]^0x36; IMB_MD5_ONE_BLOCK(m,b,ks1); for (int i=0;i<64;i++) b[i]=key_buf[i%16]^0x5c; IMB_MD5_ONE_BLOCK(m,b,ks2); break; }
	case A_HMAC_SM3: imb_hmac_ipad_opad(m, IMB_AUTH_HMAC_SM3, key_buf, 32, ks1, ks2); break;
	case A_XCBC: IMB_AES_XCBC_KEYEXP(m, key_buf, ks1, ks2, ks3); break;
	case A_CMAC: { IMB_AES_KEYEXP_128(m, key_buf, ks1, ks3); IMB_AES_CMAC_SUBKEY_GEN_128(m, ks1, ks2, ks2+16); break; }
	case A_CMAC256: { IMB_AES_KEYEXP_256(m, key_buf, ks1, ks3); IMB_AES_CMAC_SUBKEY_GEN_256(m, ks1, ks2, ks2+16); break; }
	default: break;
	}
	int done = 0;
	for (int n = 0; n < njobs; n++) {
	IMB_JOB *j = IMB_GET_NEXT_JOB(m);
	memset(j, 0, sizeof *j);
	j->cipher_direction = IMB_DIR_ENCRYPT; j->chain_order = IMB_ORDER_CIPHER_HASH;
	j->src = src_buf; j->dst = dst_buf + n*512; j->iv = iv_buf; j->iv_len_in_bytes = 16; j->enc_keys = ks1; j->dec_keys = ks2; j->key_len_in_bytes = 16;
	j->msg_len_to_cipher_in_bytes = 96 + 16*(n%8); j->cipher_mode = IMB_CIPHER_NULL; j->hash_alg = IMB_AUTH_NULL;
	j->auth_tag_output = tag_buf + n*64; j->msg_len_to_hash_in_bytes = 96 + 16*(n%8);
	switch (alg) {
	case A_CBC_ENC: j->cipher_mode = IMB_CIPHER_CBC; break;
	case A_CBC_DEC: j->cipher_mode = IMB_CIPHER_CBC; j->cipher_direction = IMB_DIR_DECRYPT; j->chain_order = IMB_ORDER_HASH_CIPHER; break;
	case A_CTR: j->cipher_mode = IMB_CIPHER_CNTR; break;
	case A_ECB: j->cipher_mode = IMB_CIPHER_ECB; j->iv = NULL; j->iv_len_in_bytes = 0; break;
	case A_CFB: j->cipher_mode = IMB_CIPHER_CFB; break;
	case A_DOCSIS: j->cipher_mode = IMB_CIPHER_DOCSIS_SEC_BPI; j->msg_len_to_cipher_in_bytes = 93; break;
	case A_DES: j->cipher_mode = IMB_CIPHER_DES; j->key_len_in_bytes = 8; j->iv_len_in_bytes = 8; break;
	case A_3DES: { static const void *k3[3]; k3[0]=ks1;k3[1]=ks2;k3[2]=ks3; j->cipher_mode = IMB_CIPHER_DES3; j->key_len_in_bytes = 24; j->iv_len_in_bytes = 8; j->enc_keys = k3; j->dec_keys = k3; break; }
	case A_ZUC256: j->cipher_mode = IMB_CIPHER_ZUC_EEA3; j->enc_keys = j->dec_keys = key_buf; j->key_len_in_bytes = 32; j->iv_len_in_bytes = 25; break;
	case A_SNOW3G_UEA2: j->cipher_mode = IMB_CIPHER_SNOW3G_UEA2_BITLEN; j->msg_len_to_cipher_in_bits = 8*(96+16*(n%8)); j->dec_keys = ks1; break;
	case A_KASUMI_UEA1: j->cipher_mode = IMB_CIPHER_KASUMI_UEA1_BITLEN; j->msg_len_to_cipher_in_bits = 8*(96+16*(n%8)); j->iv_len_in_bytes = 8; j->dec_keys = ks1; break;
	case A_CHACHA20: j->cipher_mode = IMB_CIPHER_CHACHA20; j->enc_keys = j->dec_keys = key_buf; j->key_len_in_bytes = 32; j->iv_len_in_bytes = 12; break;
	case A_SNOWV: j->cipher_mode = IMB_CIPHER_SNOW_V; j->enc_keys = j->dec_keys = key_buf; j->key_len_in_bytes = 32; break;
	case A_SM4_CBC: j->cipher_mode = IMB_CIPHER_SM4_CBC; break;
	case A_SM4_CTR: j->cipher_mode = IMB_CIPHER_SM4_CNTR; break;
	case A_GCM: j->cipher_mode = IMB_CIPHER_GCM; j->hash_alg = IMB_AUTH_AES_GMAC; j->dec_keys = ks1; j->iv_len_in_bytes = 12; j->u.GCM.aad = aad_buf; j->u.GCM.aad_len_in_bytes = 20; j->auth_tag_output_len_in_bytes = 16; break;
	case A_SM4_GCM: j->cipher_mode = IMB_CIPHER_SM4_GCM; j->hash_alg = IMB_AUTH_SM4_GCM; j->dec_keys = ks1; j->iv_len_in_bytes = 12; j->u.GCM.aad = aad_buf; j->u.GCM.aad_len_in_bytes = 20; j->auth_tag_output_len_in_bytes = 16; break;
	case A_CCM: j->cipher_mode = IMB_CIPHER_CCM; j->hash_alg = IMB_AUTH_AES_CCM; j->chain_order = IMB_ORDER_HASH_CIPHER; j->iv_len_in_bytes = 13; j->u.CCM.aad = aad_buf; j->u.CCM.aad_len_in_bytes = 20; j->auth_tag_output_len_in_bytes = 8; break;
	case A_CHACHAPOLY: j->cipher_mode = IMB_CIPHER_CHACHA20_POLY1305; j->hash_alg = IMB_AUTH_CHACHA20_POLY1305; j->enc_keys = j->dec_keys = key_buf; j->key_len_in_bytes = 32; j->iv_len_in_bytes = 12; j->u.CHACHA20_POLY1305.aad = aad_buf; j->u.CHACHA20_POLY1305.aad_len_in_bytes = 20; j->auth_tag_output_len_in_bytes = 16; break;
	case A_SNOWV_AEAD: j->cipher_mode = IMB_CIPHER_SNOW_V_AEAD; j->hash_alg = IMB_AUTH_SNOW_V_AEAD; j->enc_keys = j->dec_keys = key_buf; j->key_len_in_bytes = 32; j->u.SNOW_V_AEAD.aad = aad_buf; j->u.SNOW_V_AEAD.aad_len_in_bytes = 20; j->auth_tag_output_len_in_bytes = 16; break;
	case A_HMAC_SHA1: j->hash_alg = IMB_AUTH_HMAC_SHA_1; j->u.HMAC._hashed_auth_key_xor_ipad = ks1; j->u.HMAC._hashed_auth_key_xor_opad = ks2; j->auth_tag_output_len_in_bytes = 12; break;
	case A_HMAC_SHA256: j->hash_alg = IMB_AUTH_HMAC_SHA_256; j->u.HMAC._hashed_auth_key_xor_ipad = ks1; j->u.HMAC._hashed_auth_key_xor_opad = ks2; j->auth_tag_output_len_in_bytes = 16; break;
	case A_HMAC_SHA512: j->hash_alg = IMB_AUTH_HMAC_SHA_512; j->u.HMAC._hashed_auth_key_xor_ipad = ks1; j->u.HMAC._hashed_auth_key_xor_opad = ks2; j->auth_tag_output_len_in_bytes = 32; break;
	case A_HMAC_MD5: j->hash_alg = IMB_AUTH_MD5; j->u.HMAC._hashed_auth_key_xor_ipad = ks1; j->u.HMAC._hashed_auth_key_xor_opad = ks2; j->auth_tag_output_len_in_bytes = 12; break;
	case A_HMAC_SM3: j->hash_alg = IMB_AUTH_HMAC_SM3; j->u.HMAC._hashed_auth_key_xor_ipad = ks1; j->u.HMAC._hashed_auth_key_xor_opad = ks2; j->auth_tag_output_len_in_bytes = 32; break;
	case A_XCBC: j->hash_alg = IMB_AUTH_AES_XCBC; j->u.XCBC._k1_expanded = (void*)ks1; j->u.XCBC._k2 = ks2; j->u.XCBC._k3 = ks3; j->auth_tag_output_len_in_bytes = 12; break;
	case A_CMAC: j->hash_alg = IMB_AUTH_AES_CMAC; j->u.CMAC._key_expanded = ks1; j->u.CMAC._skey1 = ks2; j->u.CMAC._skey2 = ks2+16; j->auth_tag_output_len_in_bytes = 16; break;
	case A_CMAC256: j->hash_alg = IMB_AUTH_AES_CMAC_256; j->u.CMAC._key_expanded = ks1; j->u.CMAC._skey1 = ks2; j->u.CMAC._skey2 = ks2+16; j->auth_tag_output_len_in_bytes = 16; break;
	case A_GMAC: j->hash_alg = IMB_AUTH_AES_GMAC_128; j->u.GMAC._key = (void*)ks1; j->u.GMAC._iv = iv_buf; j->u.GMAC.iv_len_in_bytes = 12; j->auth_tag_output_len_in_bytes = 16; break;
	case A_GHASH: j->hash_alg = IMB_AUTH_GHASH; j->u.GHASH._key = (void*)ks1; j->u.GHASH._init_tag = aad_buf; j->auth_tag_output_len_in_bytes = 16; break;
	case A_POLY1305: j->hash_alg = IMB_AUTH_POLY1305; j->u.POLY1305._key = key_buf; j->auth_tag_output_len_in_bytes = 16; break;
	case A_ZUC256_EIA3: j->hash_alg = IMB_AUTH_ZUC256_EIA3_BITLEN; j->u.ZUC_EIA3._key = key_buf; j->u.ZUC_EIA3._iv = iv_buf; j->msg_len_to_hash_in_bits = 8*(96+16*(n%8)); j->auth_tag_output_len_in_bytes = 8; break;
	case A_KASUMI_UIA1: j->hash_alg = IMB_AUTH_KASUMI_UIA1; j->u.KASUMI_UIA1._key = ks1; j->auth_tag_output_len_in_bytes = 4; break;
	}
	if (j->cipher_mode == IMB_CIPHER_NULL) j->chain_order = IMB_ORDER_HASH_CIPHER;
	j = IMB_SUBMIT_JOB(m);
	if (imb_get_errno(m)) { printf("%s submit err %d (%s)\n", an[alg], imb_get_errno(m), imb_get_strerror(imb_get_errno(m))); return -1; }
	while (j) { done++; j = IMB_GET_COMPLETED_JOB(m); }
	}
	IMB_JOB *j;
	while ((j = IMB_FLUSH_JOB(m)) != NULL) done++;
	if (done != njobs || IMB_QUEUE_SIZE(m)) { printf("done=%d\n", done); return -1; }
	return 0;
}
static int is_public(const uint8_t *a, size_t i, const uint8_t *dsta, const uint8_t *taga) {
	/* 4-byte aligned word containing byte i: public if it occurs (any alignment, either byte order) in the output or the tag of the same run */
	size_t w = i & ~(size_t)3; uint8_t x[4], y[4]; memcpy(x, a+w, 4); y[0]=x[3];y[1]=x[2];y[2]=x[1];y[3]=x[0];
	for (size_t k = 0; k + 4 <= 40*512; k++) if (!memcmp(dsta+k, x, 4) || !memcmp(dsta+k, y, 4)) return 1;
	for (size_t k = 0; k + 4 <= 40*64; k++) if (!memcmp(taga+k, x, 4) || !memcmp(taga+k, y, 4)) return 1;
	return 0;
}
int main(int argc, char **argv)
{
	if (argc > 1) njobs = atoi(argv[1]);
	size_t sz = imb_get_mb_mgr_size();
	uint8_t *mem, *a = malloc(sz), *b = malloc(sz), *a2 = malloc(sz);
	static uint8_t dsta[40*512], taga[40*64];
	posix_memalign((void**)&mem, 64, sz);
	struct { const char *n; init_fn f; uint64_t fl; } v[] = { {"sse_t1", init_mb_mgr_sse, IMB_FLAG_SHANI_OFF|IMB_FLAG_GFNI_OFF}, {"sse_t3", init_mb_mgr_sse, 0}, {"avx2_t1", init_mb_mgr_avx2, IMB_FLAG_GFNI_OFF|IMB_FLAG_SHANI_OFF}, {"avx2_t2", init_mb_mgr_avx2, 0}, {"avx512_t1", init_mb_mgr_avx512, IMB_FLAG_GFNI_OFF}, {"avx512_t2", init_mb_mgr_avx512, 0} };
	for (unsigned vi = 0; vi < 6; vi++) for (int alg = 0; alg < A_N; alg++) {
		if (run(mem, sz, v[vi].f, v[vi].fl, alg, 0)) continue; memcpy(a, mem, sz); memcpy(dsta, dst_buf, sizeof dsta); memcpy(taga, tag_buf, sizeof taga);
		if (run(mem, sz, v[vi].f, v[vi].fl, alg, 1)) continue; memcpy(b, mem, sz);
		if (run(mem, sz, v[vi].f, v[vi].fl, alg, 0)) continue; memcpy(a2, mem, sz);
		size_t nd = 0, first = 0, last = 0, noise = 0, pub = 0;
		for (size_t i = 0; i < sz; i++) { if (a[i] != a2[i]) noise++; else if (a[i] != b[i]) { if (is_public(a, i, dsta, taga)) { pub++; continue; } if (!nd) first = i; last = i; nd++; } }
		if (nd || noise) printf("%-10s %-18s key-dependent non-output bytes left: %4zu (offsets %zu..%zu) output-copies=%zu noise=%zu\n", v[vi].n, an[alg], nd, first, last, pub, noise);
	}
	return 0;
}

#!/bin/bash
# tools/mutant_test.sh <patch.diff|-R commit> <check id> [more ids] [-- extra check args]
# Applies a patch to a scratch copy of /repo (never /repo itself), builds the library from it and runs the
# given checks against it with evidence/replays redirected to a scratch directory. Prints one line per check.
set -uo pipefail
V=/verif
patch=$1; shift; case "$patch" in /*|-R) ;; *) patch="$PWD/$patch";; esac
ids=(); extra=()
while [ $# -gt 0 ]; do if [ "$1" = "--" ]; then shift; extra=("$@"); break; fi; ids+=("$1"); shift; done
S=$(mktemp -d /dev/shm/mut.XXXXXX)
trap 'rm -rf "$S"' EXIT
mkdir -p "$S/repo" "$S/out" "$S/cache"
(cd /repo && git archive HEAD lib cmake CMakeLists.txt | tar -x -C "$S/repo")
if [ "$patch" = "-R" ]; then
  c=${ids[0]}; ids=("${ids[@]:1}")
  (cd /repo && git show "$c" -- lib) | (cd "$S/repo" && patch -R -p1 -s) || { echo "MUTANT: cannot revert $c"; exit 2; }
else
  (cd "$S/repo" && patch -p1 -s < "$patch") || { echo "MUTANT: patch does not apply"; exit 2; }
fi
export IMB_REPO="$S/repo" IMB_CACHE="$S/cache" VERIF_OUT="$S/out"
# build_sim.sh keeps its own cache dir; point everything at the scratch cache but reuse sim objects
LIBDIR=$(IMB_CACHE="$S/cache" "$V/tools/build_cache.sh") || { echo "MUTANT: build failed (does not compile)"; exit 3; }
export IMB_LIBDIR_RESOLVED="$LIBDIR"
BIN=$(IMB_LIBDIR="$LIBDIR" "$V/tools/build_sim.sh") || { echo "MUTANT: sim link failed"; exit 3; }
for id in "${ids[@]}"; do
  out=$("$BIN" check "$id" "${extra[@]}" 2>&1); rc=$?
  nv=$(echo "$out" | grep -c "^VIOLATION")
  [ -n "${MUTANT_VERBOSE:-}" ] && echo "$out" | grep -A1 "^VIOLATION" | grep -o "key=[^ ]*" | sort | uniq -c
  echo "MUTANT-RESULT check=$id exit=$rc violations=$nv :: $(echo "$out" | grep -A2 '^VIOLATION' | head -3 | tr '\n' ' ' | cut -c1-300)"
done

#!/bin/bash
# tools/ref_admit.sh : admission test of the hand-written 3GPP references against the standards' vectors.
# The vectors are data files of the repository's own test suite (test/kat-app/*.json.c); nothing else of /repo is used.
set -euo pipefail
cd "$(dirname "$0")/.."
T=$(mktemp -d /dev/shm/admit.XXXXXX); trap 'rm -rf "$T"' EXIT
mkdir -p "$T/vectors"
R=${IMB_REPO:-/repo}
cp "$R"/test/include/cipher_test.h "$R"/test/include/mac_test.h "$T/vectors/"
for f in kasumi_f8 kasumi_f9 snow3g_test_f8_vectors snow3g_test_f9_vectors zuc_eea3_128 zuc_eea3_256 zuc_eia3_128 zuc_eia3_256; do
  cp "$R/test/kat-app/$f.json.c" "$T/vectors/"; gcc -O0 -w -I"$T/vectors" -c "$T/vectors/$f.json.c" -o "$T/$f.o"
done
cp ref/admit/selftest_wireless.cc ref/wireless.cc ref/wireless.h ref/prims.h "$T/"
(cd "$T" && g++ -std=c++17 -O1 -w -I. selftest_wireless.cc wireless.cc *.o -o selftest && ./selftest)
# SNOW-V, SNOW-V-AEAD and PON references against the paper's / the kat-app's vectors
T3=$(mktemp -d /dev/shm/admit3.XXXXXX)
mkdir -p "$T3/vectors"
cp "$R"/test/include/cipher_test.h "$R"/test/include/aead_test.h "$T3/vectors/"
cp "$R"/test/kat-app/snow_v_test.json.c "$R"/test/kat-app/snow_v_aead.json.c "$T3/vectors/"
cp ref/admit/pon_vectors.h "$T3/vectors/"
cp ref/admit/selftest_snowv_pon.cc ref/snowv_pon.cc ref/snowv_pon.h "$T3/"
(cd "$T3" && g++ -std=c++17 -O1 -w -I. selftest_snowv_pon.cc snowv_pon.cc -lcrypto -o selftest && ./selftest | tail -4); rc3=$?; rm -rf "$T3"; [ $rc3 = 0 ] || exit $rc3
# SM3 compression function used for the HMAC-SM3 pad states (C11)
T2=$(mktemp -d /dev/shm/admit2.XXXXXX)
cat > "$T2/t.cc" <<'EOT'
#include "prims.h"
#include <stdio.h>
int main() { bool ok = ref_sm3_selfcheck(); printf("ref_sm3_compress + hand padding vs libcrypto SM3 (7 lengths): %s\n", ok ? "PASS" : "FAIL"); return ok ? 0 : 1; }
EOT
g++ -std=c++17 -O1 -w -Iref "$T2/t.cc" ref/prims.cc -lcrypto -o "$T2/t" && "$T2/t"; rc=$?; rm -rf "$T2"; exit $rc

#!/bin/bash
# tools/seed_keep.sh <worktree> <seeded id> <property> "<what it needs to manifest>" [checks...]
# Confirms a sub-agent's mutant (patch applies to a scratch copy, library builds, the demonstration fails with it and
# passes without it, the agent's full ctest log says 100% passed), stores it under /verif/seeded/<id>/ and runs the
# given checks against it. The worktree is removed afterwards.
set -uo pipefail
wt=$1; id=$2; prop=$3; needs=$4; shift 4
V=/verif; M=$wt/mutant; D=$V/seeded/$id
[ -f "$M/patch.diff" ] || { echo "no patch.diff in $M"; exit 2; }
mkdir -p "$D"
cp "$M/patch.diff" "$D/"; for f in demo.c RUN.md NOTES.md; do [ -f "$M/$f" ] && cp "$M/$f" "$D/"; done
for f in "$M"/*.c "$M"/*.h "$M"/*.sh; do [ -f "$f" ] && cp "$f" "$D/" ; done
ctest_ok=$(grep -h "tests passed" "$M"/ctest*.log 2>/dev/null | tail -1)
S=$(mktemp -d /dev/shm/seed.XXXXXX); trap 'rm -rf "$S"' EXIT
mkdir -p "$S/repo" "$S/cache"
(cd /repo && git archive HEAD lib cmake CMakeLists.txt | tar -x -C "$S/repo")
(cd "$S/repo" && patch -p1 -s < "$D/patch.diff") || { echo "patch does not apply to current /repo HEAD"; exit 2; }
MUT=$(IMB_REPO="$S/repo" IMB_CACHE="$S/cache" $V/tools/build_cache.sh) || { echo "mutant does not build"; exit 3; }
ORIG=$($V/tools/build_cache.sh)
demo_res="no demo.c"
if [ -f "$D/demo.c" ]; then
  gcc -O1 -w -I"$ORIG" "$D/demo.c" "$ORIG/libIPSec_MB.a" -lcrypto -lpthread -o "$S/demo_orig" 2>"$S/cc.log" && \
  gcc -O1 -w -I"$MUT" "$D/demo.c" "$MUT/libIPSec_MB.a" -lcrypto -lpthread -o "$S/demo_mut" 2>>"$S/cc.log"
  if [ -x "$S/demo_orig" ] && [ -x "$S/demo_mut" ]; then
    (cd "$S" && timeout 300 ./demo_orig >/dev/null 2>&1); ro=$?
    (cd "$S" && timeout 300 ./demo_mut >/dev/null 2>&1); rm_=$?
    demo_res="orig_exit=$ro mutant_exit=$rm_"
  else demo_res="demo did not compile: $(head -3 "$S/cc.log" | tr '\n' ' ')"; fi
fi
results=()
for c in "$@"; do
  out=$(IMB_LIBDIR_RESOLVED="$MUT" IMB_LIBDIR="$MUT" VERIF_OUT="$S/out" $($V/tools/build_sim.sh >/dev/null 2>&1; IMB_LIBDIR="$MUT" $V/tools/build_sim.sh 2>/dev/null) check "$c" 2>&1); rc=$?
  results+=("$c:exit=$rc:violations=$(echo "$out" | grep -c '^VIOLATION')")
  echo "check $c on mutant: exit=$rc $(echo "$out" | grep -A1 '^VIOLATION' | head -2 | tr '\n' ' ' | cut -c1-250)"
done
python3 - "$D" "$id" "$prop" "$needs" "$demo_res" "$ctest_ok" "${results[@]:-}" <<'PY'
import json,sys
d,id_,prop,needs,demo,ctest=sys.argv[1:7]; res=sys.argv[7:]
json.dump({"id":id_,"breaks_property":prop,"needs_to_manifest":needs,
 "confirmed":{"patch_applies_and_builds":True,"demo":demo,"agent_full_ctest":ctest},
 "checks_run_against_it":res,
 "how_to_apply":"git -C /repo apply /verif/seeded/%s/patch.diff ; run checks ; git -C /repo checkout -- ."%id_}, open(d+"/meta.json","w"), indent=1)
PY
echo "demo: $demo_res | ctest: $ctest_ok"
git -C /repo worktree remove --force "$wt" 2>/dev/null; rm -rf "$wt"

#!/bin/bash
# tools/seeded_regress.sh [pattern] : run every seeded mutant (seeded/*/patch*.diff) against the check of the property it breaks
# (scratch copies only, never /repo). One line per patch: CAUGHT / MISSED.
cd "$(dirname "$0")/.."
for d in seeded/${1:-*}/; do
  id=$(basename "$d"); prop=${id%%-*}
  for p in "$d"patch*.diff; do
    [ -f "$p" ] || continue
    out=$(timeout 1500 tools/mutant_test.sh "$p" "$prop" 2>&1 | grep "MUTANT")
    rc=$(echo "$out" | sed -n 's/.*exit=\([0-9]*\).*/\1/p')
    if [ "$rc" = 1 ]; then echo "CAUGHT $id $(basename "$p") by $prop"; else echo "MISSED $id $(basename "$p") by $prop :: $out" | cut -c1-300; fi
  done
done
